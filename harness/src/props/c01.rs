//! C01 — entropy codecs are lossless for every input and variant.
//!
//! Refuting event: `encode(x)` returned `Ok(z)` and the matching decoder, given `z` and `|x|`, returned `Err`,
//! panicked, or returned `Ok(y)` with `y != x`.  Oracle: identity (independent of the codec internals).
//! An `Err` from a constructor / encoder is *held* (the statement conditions on success) and is counted in the
//! `refused:*` notes; a panic inside an in-contract constructor / encoder call is reported as `enc_panic:*`.
//!
//! Targets (one per independently breakable implementation / configuration):
//!   huff0, huff0/serde                      HuffmanEncoder/HuffmanDecoder (+ tree serialize -> deserialize as decoder path)
//!   ctx/o0|o1|o2, ctx/serde_o0|o1|o2        ContextualHuffmanEncoder/Decoder (+ encoder serialize -> deserialize)
//!   il/x1|x2|x4|x8, il/with                 encode_xN/decode_xN and encode/decode_with_interleaving
//!   rans/x1|x2|x4|x8, rans/adaptive         Rans64Encoder<P>/Rans64Decoder<P>, AdaptiveRans64Encoder
//!   fse/default|fast|high|realtime|balanced|fn|parallel|dict|nonadaptive|custom
//!   dict/default|cfg, optdict/default|cfg   DictionaryCompressor, OptimizedDictionaryCompressor
//!   phuff/x2|x4|x8                          ParallelHuffmanEncoder<P>/ParallelHuffmanDecoder<P>
//!   simdhuff/<tier>                         SimdHuffmanEncoder (decoded with HuffmanDecoder on its tree)
//!   adaptive_par                            AdaptiveParallelEncoder (decoder chosen via select_optimal_encoding)
//!   gap_* families (see `gap_cases`): bitops/hw|sw|mixed (bit-field coders of bit_ops.rs), dict/serde (Dictionary save/load),
//!   fse/reset, fse/table, fse/fastdiv, rans/x1|x4 gap_table (slot invariant), simdhuff/new
use crate::ctx::{catch, Case, Ctx, Fail, Res};
use crate::gen;
use std::fmt::Display;
use zipora::entropy::dictionary::{DictionaryBuilder, DictionaryCompressor, OptimizedDictionaryCompressor};
use zipora::entropy::fse::{fse_compress, fse_compress_with_config, fse_decompress, fse_decompress_with_config, fse_unzip, fse_zip, FseConfig, FseDecoder, FseEncoder};
use zipora::entropy::huffman::{ContextualHuffmanDecoder, ContextualHuffmanEncoder, HuffmanDecoder, HuffmanEncoder, HuffmanOrder, HuffmanTree, InterleavingFactor};
use zipora::entropy::parallel::{self as par, AdaptiveParallelEncoder, ParallelConfig, ParallelHuffmanDecoder, ParallelHuffmanEncoder, ParallelX2Variant, ParallelX4Variant, ParallelX8Variant};
use zipora::entropy::rans::{self, AdaptiveRans64Encoder, ParallelX1, ParallelX2, ParallelX4, ParallelX8, Rans64Decoder, Rans64Encoder};
use zipora::entropy::simd_huffman::{HuffmanSimdTier, SimdHuffmanConfig, SimdHuffmanEncoder};

// ---------------------------------------------------------------------------------------------
// verdict helpers
// ---------------------------------------------------------------------------------------------
fn bad(oracle: &str, d: String) -> Fail { Fail { oracle: oracle.to_string(), detail: d } }
fn sanitize(s: &str) -> String { let t: String = s.chars().filter(|ch| !ch.is_ascii_digit() && *ch != '|').take(46).collect(); t.trim().to_string() }

/// Constructor / encoder side: `Ok(None)` = refused with `Err` (held: the statement conditions on success).
fn enc<T, E: Display>(c: &mut Case, what: &str, f: impl FnOnce() -> Result<T, E>) -> Result<Option<T>, Fail> {
    match catch(f) {
        Ok(Ok(z)) => Ok(Some(z)),
        Ok(Err(e)) => { c.note(&format!("refused:{what}"), 1); c.log(format!("{what} refused: {e}")); Ok(None) }
        Err(p) => Err(bad(&format!("enc_{}", p.class()), format!("{what} panicked at {}: {}", p.loc, p.msg))),
    }
}
/// A step that must succeed once the encoder has succeeded (decoder construction, deserialising own serialisation).
fn must<T, E: Display>(what: &str, oracle: &str, f: impl FnOnce() -> Result<T, E>) -> Result<T, Fail> {
    match catch(f) {
        Ok(Ok(z)) => Ok(z),
        Ok(Err(e)) => { let m = e.to_string(); Err(bad(&format!("{oracle}:{}", sanitize(&m)), format!("{what} returned Err({m})"))) }
        Err(p) => Err(bad(&format!("dec_{}", p.class()), format!("{what} panicked at {}: {}", p.loc, p.msg))),
    }
}
fn diff(x: &[u8], y: &[u8]) -> String {
    let first = x.iter().zip(y.iter()).position(|(a, b)| a != b).unwrap_or(x.len().min(y.len()));
    let nd = x.iter().zip(y.iter()).filter(|(a, b)| a != b).count();
    let w = |v: &[u8]| gen::hex(&v[first.min(v.len())..(first + 8).min(v.len())]);
    format!("|x|={} |y|={} first_diff@{first} differing_bytes={nd} x[{first}..]={} y[{first}..]={}", x.len(), y.len(), w(x), w(y))
}
/// Decoder side: the identity oracle.
fn dec<E: Display>(c: &mut Case, what: &str, x: &[u8], f: impl FnOnce() -> Result<Vec<u8>, E>) -> Res {
    c.ev(1);
    match catch(f) {
        Ok(Ok(y)) => if y == x { Ok(()) } else { Err(bad("roundtrip_mismatch", format!("{what}: {}", diff(x, &y)))) },
        Ok(Err(e)) => { let m = e.to_string(); Err(bad(&format!("decode_err:{}", sanitize(&m)), format!("{what} returned Err({m}) for |x|={}", x.len()))) }
        Err(p) => Err(bad(&format!("dec_{}", p.class()), format!("{what} panicked at {}: {} (|x|={})", p.loc, p.msg, x.len()))),
    }
}
fn encoded(c: &mut Case, i: &Inp) { c.note("enc_ok", 1); c.set_nontrivial(i.data.len() >= 2); }
fn codelen_note(c: &mut Case, l: usize) {
    let b = match l { 0 => "0", 1..=8 => "1-8", 9..=12 => "9-12", 13..=16 => "13-16", 17..=32 => "17-32", 33..=64 => "33-64", _ => ">64" };
    c.note(&format!("maxcodelen:{b}"), 1);
}

// ---------------------------------------------------------------------------------------------
// inputs
// ---------------------------------------------------------------------------------------------
#[allow(dead_code)]
pub struct Inp { pub data: Vec<u8>, pub train: Vec<u8>, pub freqs: Option<[u32; 256]>, pub kind: u32 }
const MODES: [&str; 4] = ["same", "other", "related", "cover"];

fn count(b: &[u8]) -> [u32; 256] { let mut f = [0u32; 256]; for &x in b { f[x as usize] += 1; } f }

fn gen_train(c: &mut Case, mode: usize, data: &[u8]) -> Vec<u8> {
    match mode {
        0 => data.to_vec(),
        1 => { // unrelated data; half of the time completed to the full alphabet so that order-0 models can code the payload at all
            let mut t = gen::bytes_any(&mut c.rng, 2000).1;
            if c.rng.bool() { t.extend(0..=255u8); c.rng.shuffle(&mut t); }
            t }
        2 => { let l = gen::pick_len(&mut c.rng, 2000); gen::related_bytes(&mut c.rng, data, l) }
        _ => { // every payload symbol present, but with a different frequency profile, plus a few foreign symbols
            let present = count(data); let style = c.rng.below(3); let mut t = Vec::new();
            for s in 0..256usize {
                if present[s] > 0 { let n = match style { 0 => 1, 1 => 1 + c.rng.below(8), _ => 1 + c.rng.below(200) }; for _ in 0..n { t.push(s as u8); } }
                else if c.rng.chance(1, 16) { for _ in 0..1 + c.rng.below(4) { t.push(s as u8); } }
            }
            c.rng.shuffle(&mut t); t }
    }
}
const NSYMS: &[usize] = &[1, 2, 3, 4, 5, 8, 9, 12, 13, 14, 16, 17, 18, 24, 25, 31, 32, 33, 34, 40, 48, 63, 64, 65, 66, 67, 100, 128, 200, 255, 256];
/// directed payload families
fn directed(c: &mut Case, fam: &str, idx: u64, maxlen: usize) -> Vec<u8> {
    match fam {
        "nsym" => { // exactly n distinct symbols (code lengths above / below every table width; 65/66 = fixed-length fallback edge)
            let n = NSYMS[(idx as usize) % NSYMS.len()];
            let mut all: Vec<u8> = (0..=255u8).collect(); c.rng.shuffle(&mut all); let syms = &all[..n];
            let len = gen::pick_len(&mut c.rng, maxlen).max(n); let prof = c.rng.below(3);
            let mut out: Vec<u8> = syms.to_vec();
            while out.len() < len { let j = match prof { 0 => c.rng.usize_below(n), 1 => if c.rng.chance(9, 10) { 0 } else { c.rng.usize_below(n) }, _ => { let mut j = 0; while j + 1 < n && c.rng.bool() { j += 1; } j } }; out.push(syms[j]); }
            c.rng.shuffle(&mut out); out }
        "rare_sym" => { // one dominant symbol and k symbols that occur 1..3 times: present symbols that deserve < 1 slot of 4096
            let len = (*c.rng.pick(&[4096usize, 4097, 5000, 8192, 20000, 65536])).min(maxlen);
            let dom = if c.rng.chance(1, 2) { c.rng.below(4) as u8 } else { c.rng.next() as u8 };
            let k = *c.rng.pick(&[1usize, 2, 3, 4, 5, 8, 16, 64, 128, 255]);
            let mut out = vec![dom; len]; let mut all: Vec<u8> = (0..=255u8).filter(|&b| b != dom).collect(); c.rng.shuffle(&mut all);
            for &s in all.iter().take(k) { for _ in 0..1 + c.rng.below(3) { let p = c.rng.usize_below(len); out[p] = s; } }
            out }
        _ => { // "modn": every residue of the length modulo the stream counts, including lengths below the stream count
            let r = (idx % 8) as usize; let q = if idx < 8 { 0 } else { c.rng.usize_below(41) }; let len = (8 * q + r).min(maxlen);
            let k = c.rng.below(gen::BYTE_KINDS as u64) as u32; gen::bytes_kind(&mut c.rng, k, len) }
    }
}
fn fib_freqs(c: &mut Case, d: usize) -> ([u32; 256], Vec<u8>) {
    // d+1 symbols with Fibonacci weights 1,1,2,3,5,..: an optimal code has depth d
    let mut all: Vec<u8> = (0..=255u8).collect(); c.rng.shuffle(&mut all); let syms: Vec<u8> = all[..d + 1].to_vec();
    let mut f = [0u32; 256]; let (mut a, mut b) = (1u32, 1u32);
    for &s in &syms { f[s as usize] = a; let n = a + b; a = b; b = n; }
    (f, syms)
}
fn record(c: &mut Case, kind: &str, mode: &str, i: &Inp) {
    c.input_str("kind", kind); c.input_str("mode", mode); c.input("data", &i.data);
    if mode != "same" { c.input("train", &i.train); }
    if let Some(f) = &i.freqs { let b: Vec<u8> = f.iter().flat_map(|x| x.to_le_bytes()).collect(); c.input("freqs", &b); }
}

// ---------------------------------------------------------------------------------------------
// input-only root-cause predicates (tags)
// ---------------------------------------------------------------------------------------------
/// Replica of zipora's FSE frequency normalisation (fse.rs EntropyNormalizer / normalize_frequencies_simple),
/// evaluated on the input only.  Returns None when FseTable::new refuses the table (only symbol 0 present / empty).
fn fse_norm(freqs: &[u32; 256], entropy_opt: bool) -> Option<Vec<u32>> {
    let max_symbol = freqs.iter().rposition(|&f| f > 0).unwrap_or(0); if max_symbol == 0 { return None; }
    let target: u32 = 4096;
    if entropy_opt {
        let total = freqs.iter().sum::<u32>() as f64; if total == 0.0 { return None; }
        let entropy: f64 = freqs.iter().filter(|&&f| f > 0).map(|&f| { let p = f as f64 / total; -p * p.log2() }).sum();
        let mut norm = vec![0u32; 256]; let mut remaining = target;
        for (i, &f) in freqs.iter().enumerate() { if f > 0 {
            let alloc = if entropy > 1.0 { let p = f as f64 / total; let w = -p * p.log2(); ((w * target as f64) / entropy).round() as u32 } else { ((f as f64 * target as f64) / total).round() as u32 };
            norm[i] = alloc.max(1).min(remaining); remaining = remaining.saturating_sub(norm[i]); } }
        while remaining > 0 { let (mut mf, mut mi) = (0u32, 0usize); for (i, &f) in freqs.iter().enumerate() { if f > mf && norm[i] < target / 4 { mf = f; mi = i; } } if mf == 0 { break; } norm[mi] += 1; remaining -= 1; }
        Some(norm)
    } else {
        let total: u64 = freqs.iter().take(max_symbol + 1).map(|&f| f as u64).sum();
        let mut norm = vec![0u32; 256]; let mut remaining = target;
        for i in 0..=max_symbol { if freqs[i] > 0 { let f = ((freqs[i] as u64 * target as u64) / total) as u32; norm[i] = f.max(1).min(remaining); remaining = remaining.saturating_sub(norm[i]); } }
        while remaining > 0 { let (mut mf, mut mi) = (0u32, 0usize); for i in 0..=max_symbol { if freqs[i] > mf && norm[i] < target / 4 { mf = freqs[i]; mi = i; } } if mf == 0 { break; } norm[mi] += 1; remaining -= 1; }
        Some(norm)
    }
}
/// Tags for one FSE block of `data` coded with a table built from `table_src` frequencies.
fn fse_tags(c: &mut Case, cfg: &FseConfig, table_freqs: &[u32; 256], data: &[u8]) {
    if data.len() < 100 { return; } // stored uncompressed
    match fse_norm(table_freqs, cfg.entropy_optimization) {
        None => c.note("fse_table_refused(only_symbol_0)", 1),
        Some(n) => { let present = count(data);
            if cfg.max_table_size < 4096 { c.tag("fse_max_table_size_lt_4096"); }
            if (0..256).any(|s| present[s] > 0 && table_freqs[s] == 0) { c.tag("fse_symbol_not_in_static_table"); }
            if (0..256).any(|s| present[s] > 0 && table_freqs[s] > 0 && n[s] == 0) { c.tag("fse_symbol_without_slot"); }
            let sum: u32 = n.iter().sum(); if sum < 4096 { c.note("fse_norm_sum_lt_4096", 1); } }
    }
}

// ---------------------------------------------------------------------------------------------
// target bodies
// ---------------------------------------------------------------------------------------------
fn huff_encoder(c: &mut Case, i: &Inp) -> Result<Option<HuffmanEncoder>, Fail> {
    match &i.freqs { Some(f) => enc(c, "HuffmanEncoder::from_frequencies", || HuffmanEncoder::from_frequencies(f)), None => enc(c, "HuffmanEncoder::new", || HuffmanEncoder::new(&i.train)) }
}
fn t_huff0(c: &mut Case, i: &Inp, serde: bool) -> Res {
    let Some(e) = huff_encoder(c, i)? else { return Ok(()) };
    codelen_note(c, e.tree().max_code_length());
    let Some(z) = enc(c, "HuffmanEncoder::encode", || e.encode(&i.data))? else { return Ok(()) };
    encoded(c, i);
    let tree = if serde { let s = e.tree().serialize(); must("HuffmanTree::deserialize(serialize())", "deserialize_err", || HuffmanTree::deserialize(&s))? } else { e.tree().clone() };
    let d = HuffmanDecoder::new(tree);
    dec(c, "HuffmanDecoder::decode", &i.data, || d.decode(&z, i.data.len()))
}
/// Longest code over all trees of a contextual encoder, read from its public serialisation (coverage note only).
fn ctx_max_codelen(ser: &[u8]) -> usize {
    let rd = |o: usize| u32::from_le_bytes([ser[o], ser[o + 1], ser[o + 2], ser[o + 3]]) as usize;
    let tc = rd(1); let cc = rd(5); let mut o = 9 + cc * 8; let mut m = 0;
    for _ in 0..tc { let sz = rd(o); o += 4; let t = &ser[o..o + sz]; o += sz; let n = u16::from_le_bytes([t[0], t[1]]) as usize; let mut p = 2; for _ in 0..n { let l = t[p + 1] as usize; m = m.max(l); p += 2 + (l + 7) / 8; } }
    m
}
fn ctx_codelen_note(c: &mut Case, e: &ContextualHuffmanEncoder) { if let Ok(l) = catch(|| ctx_max_codelen(&e.serialize())) { codelen_note(c, l); } }
fn t_ctx(c: &mut Case, i: &Inp, order: HuffmanOrder, serde: bool) -> Res {
    let Some(e) = enc(c, "ContextualHuffmanEncoder::new", || ContextualHuffmanEncoder::new(&i.train, order))? else { return Ok(()) };
    c.note(&format!("actual_order:{:?}", e.order()), 1); c.note(if e.tree_count() > 1 { "trees:>1" } else { "trees:1" }, 1); ctx_codelen_note(c, &e);
    let Some(z) = enc(c, "ContextualHuffmanEncoder::encode", || e.encode(&i.data))? else { return Ok(()) };
    encoded(c, i);
    let e2 = if serde { let s = e.serialize(); must("ContextualHuffmanEncoder::deserialize(serialize())", "deserialize_err", || ContextualHuffmanEncoder::deserialize(&s))? } else { e };
    let d = ContextualHuffmanDecoder::new(e2);
    dec(c, "ContextualHuffmanDecoder::decode", &i.data, || d.decode(&z, i.data.len()))
}
/// which: 1/2/4/8 = encode_xN + decode_xN; 0 = encode_with_interleaving + decode_with_interleaving with a drawn factor
fn t_il(c: &mut Case, i: &Inp, which: u8) -> Res {
    let Some(e) = enc(c, "ContextualHuffmanEncoder::new(Order1)", || ContextualHuffmanEncoder::new(&i.train, HuffmanOrder::Order1))? else { return Ok(()) };
    c.note(&format!("actual_order:{:?}", e.order()), 1); ctx_codelen_note(c, &e);
    let n = i.data.len();
    let f = *c.rng.pick(&[InterleavingFactor::X1, InterleavingFactor::X2, InterleavingFactor::X4, InterleavingFactor::X8]);
    if which == 0 { c.input_str("factor", &format!("{f:?}")); }
    let streams = if which == 0 { f.streams() } else { which as usize };
    c.note(&format!("len_mod_streams:{}", n % streams), 1); if n < streams { c.note("len_lt_streams", 1); }
    let z = match which { 1 => enc(c, "encode_x1", || e.encode_x1(&i.data))?, 2 => enc(c, "encode_x2", || e.encode_x2(&i.data))?, 4 => enc(c, "encode_x4", || e.encode_x4(&i.data))?, 8 => enc(c, "encode_x8", || e.encode_x8(&i.data))?, _ => enc(c, "encode_with_interleaving", || e.encode_with_interleaving(&i.data, f))? };
    let Some(z) = z else { return Ok(()) };
    encoded(c, i);
    match which { 1 => dec(c, "decode_x1", &i.data, || e.decode_x1(&z, n)), 2 => dec(c, "decode_x2", &i.data, || e.decode_x2(&z, n)), 4 => dec(c, "decode_x4", &i.data, || e.decode_x4(&z, n)), 8 => dec(c, "decode_x8", &i.data, || e.decode_x8(&z, n)), _ => dec(c, "decode_with_interleaving", &i.data, || e.decode_with_interleaving(&z, n, f)) }
}
fn t_rans<P: rans::ParallelVariant>(c: &mut Case, i: &Inp) -> Res {
    let fr = i.freqs.unwrap_or_else(|| count(&i.train));
    let Some(e) = enc(c, "Rans64Encoder::new", || Rans64Encoder::<P>::new(&fr))? else { return Ok(()) };
    let n = i.data.len(); c.note(&format!("len_mod_streams:{}", n % P::N), 1); if n < P::N { c.note("len_lt_streams", 1); }
    let minslot = (0..256).filter(|&s| fr[s] > 0).map(|s| e.get_symbol(s as u8).freq).min().unwrap_or(0); if minslot == 1 { c.note("symbol_with_1_slot", 1); }
    let Some(z) = enc(c, "Rans64Encoder::encode", || e.encode(&i.data))? else { return Ok(()) };
    encoded(c, i);
    let d = must("Rans64Decoder::new", "decoder_ctor", || Ok::<_, String>(Rans64Decoder::<P>::new(&e)))?;
    dec(c, "Rans64Decoder::decode", &i.data, || d.decode(&z, n))
}
fn t_rans_adaptive(c: &mut Case, i: &Inp) -> Res {
    let a = AdaptiveRans64Encoder::new(); let n = i.data.len(); let v = a.select_variant(n); c.note(&format!("variant:{v}"), 1);
    let Some(z) = enc(c, "AdaptiveRans64Encoder::encode_adaptive", || a.encode_adaptive(&i.data))? else { return Ok(()) };
    encoded(c, i);
    let fr = count(&i.data);
    fn go<P: rans::ParallelVariant>(c: &mut Case, fr: &[u32; 256], z: &[u8], x: &[u8]) -> Res {
        let e = must("Rans64Encoder::new (decoder side)", "decoder_ctor", || Rans64Encoder::<P>::new(fr))?; let d = Rans64Decoder::<P>::new(&e);
        dec(c, "Rans64Decoder::decode(adaptive output)", x, || d.decode(z, x.len()))
    }
    match v { "x1" => go::<ParallelX1>(c, &fr, &z, &i.data), "x2" => go::<ParallelX2>(c, &fr, &z, &i.data), "x4" => go::<ParallelX4>(c, &fr, &z, &i.data), _ => go::<ParallelX8>(c, &fr, &z, &i.data) }
}

#[derive(Clone, Copy, PartialEq, Debug)]
enum FseT { Default, Fast, High, Realtime, Balanced, Fn, Dict, NonAdaptive, Custom }
fn fse_roundtrip(c: &mut Case, cfg: &FseConfig, x: &[u8], i: &Inp, object_api: bool) -> Res {
    let z = if object_api { let Some(mut e) = enc(c, "FseEncoder::new", || FseEncoder::new(cfg.clone()))? else { return Ok(()) }; enc(c, "FseEncoder::compress", || e.compress(x))? }
            else { enc(c, "fse_compress_with_config", || fse_compress_with_config(x, cfg.clone()))? };
    let Some(z) = z else { return Ok(()) };
    encoded(c, i);
    if object_api { let mut d = must("FseDecoder::with_config", "decoder_ctor", || FseDecoder::with_config(cfg.clone()))?; dec(c, "FseDecoder::decompress", x, || d.decompress(&z)) }
    else { dec(c, "fse_decompress_with_config", x, || fse_decompress_with_config(&z, cfg.clone())) }
}
fn t_fse(c: &mut Case, i: &Inp, t: FseT) -> Res {
    let x = &i.data;
    if x.len() < 100 { c.note("stored_lt_100", 1); } else { c.note("coded_ge_100", 1); }
    match t {
        FseT::Default | FseT::Fast | FseT::High | FseT::Realtime | FseT::Balanced => {
            let cfg = match t { FseT::Default => FseConfig::default(), FseT::Fast => FseConfig::fast_compression(), FseT::High => FseConfig::high_compression(), FseT::Realtime => FseConfig::realtime(), _ => FseConfig::balanced() };
            let object_api = c.rng.bool(); c.input_str("api", if object_api { "object" } else { "free_fn" });
            fse_tags(c, &cfg, &count(x), x);
            fse_roundtrip(c, &cfg, x, i, object_api)
        }
        FseT::Fn => {
            let zip = c.rng.bool(); c.input_str("api", if zip { "fse_zip/fse_unzip" } else { "fse_compress/fse_decompress" });
            fse_tags(c, &FseConfig::default(), &count(x), x);
            let Some(z) = (if zip { enc(c, "fse_zip", || fse_zip(x))? } else { enc(c, "fse_compress", || fse_compress(x))? }) else { return Ok(()) };
            encoded(c, i);
            if zip { dec(c, "fse_unzip", x, || fse_unzip(&z)) } else { dec(c, "fse_decompress", x, || fse_decompress(&z)) }
        }
        FseT::Dict => {
            let cfg = FseConfig::default();
            let mut fr = count(x); for &b in &i.train { fr[b as usize] += 1; }
            fse_tags(c, &cfg, &fr, x);
            let Some(mut e) = enc(c, "FseEncoder::with_dictionary", || FseEncoder::with_dictionary(cfg.clone(), i.train.clone()))? else { return Ok(()) };
            let Some(z) = enc(c, "FseEncoder::compress", || e.compress(x))? else { return Ok(()) };
            encoded(c, i);
            let mut d = must("FseDecoder::with_config", "decoder_ctor", || FseDecoder::with_config(cfg.clone()))?;
            dec(c, "FseDecoder::decompress", x, || d.decompress(&z))
        }
        FseT::NonAdaptive => { // adaptive=false: the table built by the first compress() call is reused for later payloads
            let cfg = FseConfig { adaptive: false, ..FseConfig::default() };
            let Some(mut e) = enc(c, "FseEncoder::new", || FseEncoder::new(cfg.clone()))? else { return Ok(()) };
            let first = catch(|| e.compress(&i.train));
            let table_from_train = matches!(first, Ok(Ok(_))) && !i.train.is_empty();
            c.note(if table_from_train { "table:from_first_payload" } else { "table:from_this_payload" }, 1);
            let tf = if !i.train.is_empty() && fse_norm(&count(&i.train), true).is_some() { count(&i.train) } else { count(x) };
            fse_tags(c, &cfg, &tf, x);
            let Some(z) = enc(c, "FseEncoder::compress(2nd payload)", || e.compress(x))? else { return Ok(()) };
            encoded(c, i);
            let mut d = must("FseDecoder::with_config", "decoder_ctor", || FseDecoder::with_config(cfg.clone()))?;
            dec(c, "FseDecoder::decompress", x, || d.decompress(&z))
        }
        FseT::Custom => {
            let table_log = c.rng.range(5, 15) as u8;
            let mts = match c.rng.below(4) { 0 => 1usize << table_log, 1 => 64 * 1024, 2 => (1usize << table_log).max(4096), _ => 256 * 1024 };
            let cfg = FseConfig { table_log, max_table_size: mts, entropy_optimization: c.rng.bool(), fast_decode: c.rng.bool(), compression_level: c.rng.range(1, 22) as i32,
                advanced_states: c.rng.bool(), min_frequency: 1 + c.rng.below(3) as u32, dict_size: if c.rng.bool() { 0 } else { 32 * 1024 }, ..FseConfig::default() };
            c.input_str("cfg", &format!("table_log={} max_table_size={} entropy_optimization={} fast_decode={} level={} advanced_states={} min_frequency={} dict_size={}", cfg.table_log, cfg.max_table_size, cfg.entropy_optimization, cfg.fast_decode, cfg.compression_level, cfg.advanced_states, cfg.min_frequency, cfg.dict_size));
            fse_tags(c, &cfg, &count(x), x);
            let object_api = c.rng.bool();
            fse_roundtrip(c, &cfg, x, i, object_api)
        }
    }
}
fn t_dict(c: &mut Case, i: &Inp, cfgd: bool) -> Res {
    // the dictionary builder is quadratic in degenerate training data and its result is not consulted by compress(): keep it small
    let tr = &i.train[..i.train.len().min(384)];
    let comp = if cfgd {
        let mn = *c.rng.pick(&[1usize, 2, 3, 4, 10, 11, 20, 64]); let mx = *c.rng.pick(&[1usize, 3, 9, 10, 11, 16, 255, 258, 259, 1000, 70000]);
        let (be, bmn, bw) = (*c.rng.pick(&[1usize, 16, 4096]), *c.rng.pick(&[1usize, 3, 8]), *c.rng.pick(&[1usize, 64, 32768]));
        c.input_str("cfg", &format!("min_match={mn} max_match={mx} builder(max_entries={be},min_match={bmn},window={bw})"));
        let Some(d) = enc(c, "DictionaryBuilder::build", || Ok::<_, String>(DictionaryBuilder::new().max_entries(be).min_match_length(bmn).window_size(bw).build(tr)))? else { return Ok(()) };
        DictionaryCompressor::new(d).min_match_length(mn).max_match_length(mx)
    } else {
        let Some(d) = enc(c, "DictionaryBuilder::build", || Ok::<_, String>(DictionaryBuilder::new().build(tr)))? else { return Ok(()) };
        DictionaryCompressor::new(d)
    };
    let Some(z) = enc(c, "DictionaryCompressor::compress", || comp.compress(&i.data))? else { return Ok(()) };
    encoded(c, i); if z.len() < 2 * i.data.len() { c.note("used_backrefs", 1); }
    dec(c, "DictionaryCompressor::decompress", &i.data, || comp.decompress(&z))
}
fn shares_gram(train: &[u8], data: &[u8], l: usize) -> bool {
    // is there s < pos with train[s..s+l] == data[pos..pos+l] ?  (what the optimized compressor turns into a back-reference)
    if l == 0 || train.len() < l || data.len() < l { return false; }
    let mut first: std::collections::BTreeMap<&[u8], usize> = std::collections::BTreeMap::new();
    for s in 0..=train.len() - l { first.entry(&train[s..s + l]).or_insert(s); }
    (1..=data.len() - l).any(|p| first.get(&data[p..p + l]).map_or(false, |&s| s < p))
}
fn t_optdict(c: &mut Case, i: &Inp, cfgd: bool) -> Res {
    let (mn, mx, w) = if cfgd { (*c.rng.pick(&[1usize, 2, 3, 4, 8, 10, 12, 32]), *c.rng.pick(&[3usize, 9, 10, 16, 258, 1000]), *c.rng.pick(&[1usize, 16, 255, 4096, 32768, 1 << 20])) } else { (3, 258, 32768) };
    if cfgd { c.input_str("cfg", &format!("min_match={mn} max_match={mx} window={w}")); }
    if i.train != i.data { c.tag("optdict_train_ne_payload"); if shares_gram(&i.train, &i.data, mn.max(10)) { c.tag("optdict_foreign_match_candidate"); } }
    if i.train.len() < mn && i.data.len() >= mn { c.tag("optdict_train_shorter_than_min_match"); }
    let comp = if cfgd { enc(c, "OptimizedDictionaryCompressor::with_config", || OptimizedDictionaryCompressor::with_config(&i.train, mn, mx, w))? } else { enc(c, "OptimizedDictionaryCompressor::new", || OptimizedDictionaryCompressor::new(&i.train))? };
    let Some(comp) = comp else { return Ok(()) };
    let Some(z) = enc(c, "OptimizedDictionaryCompressor::compress", || comp.compress(&i.data))? else { return Ok(()) };
    encoded(c, i); if z.len() < 2 * i.data.len() { c.note("used_backrefs", 1); }
    dec(c, "OptimizedDictionaryCompressor::decompress", &i.data, || comp.decompress(&z))
}
fn t_phuff<P: par::ParallelVariant>(c: &mut Case, i: &Inp) -> Res {
    let cfg = match c.rng.below(5) { 0 => ParallelConfig::default(), 1 => ParallelConfig::high_throughput(), 2 => ParallelConfig::low_latency(),
        3 => ParallelConfig { min_parallel_size: 0, block_size: *c.rng.pick(&[1usize, 16, 1024]), adaptive_blocks: c.rng.bool(), load_balancing: c.rng.bool(), num_streams: P::STREAMS },
        _ => ParallelConfig { min_parallel_size: 64, ..ParallelConfig::balanced() } };
    c.input_str("cfg", &format!("{cfg:?}"));
    c.note(if i.data.len() < cfg.min_parallel_size { "path:single_stream" } else { "path:parallel" }, 1);
    let Some(mut e) = enc(c, "ParallelHuffmanEncoder::new", || ParallelHuffmanEncoder::<P>::new(cfg.clone()))? else { return Ok(()) };
    let explicit_train = i.train != i.data || c.rng.bool(); c.input_str("train_call", if explicit_train { "explicit" } else { "auto" });
    if explicit_train { if enc(c, "ParallelHuffmanEncoder::train", || e.train(&i.train))?.is_none() { return Ok(()) } }
    let Some(z) = enc(c, "ParallelHuffmanEncoder::encode", || e.encode(&i.data))? else { return Ok(()) };
    encoded(c, i);
    let tree = must("HuffmanTree::from_data(training data)", "decoder_ctor", || HuffmanTree::from_data(&i.train))?;
    let mut d = ParallelHuffmanDecoder::<P>::new(cfg);
    must("ParallelHuffmanDecoder::set_tree", "decoder_ctor", || d.set_tree(tree))?;
    dec(c, "ParallelHuffmanDecoder::decode", &i.data, || d.decode(&z, i.data.len()))
}
fn t_simd(c: &mut Case, i: &Inp, tier: HuffmanSimdTier) -> Res {
    let cfg = SimdHuffmanConfig { preferred_tier: tier, enable_batch_processing: c.rng.bool(), batch_size: *c.rng.pick(&[1usize, 7, 32, 256, 4096]), enable_prefetching: c.rng.bool(), cache_aligned_buffers: c.rng.bool() };
    c.input_str("cfg", &format!("{cfg:?}"));
    let Some(e) = enc(c, "SimdHuffmanEncoder::with_config", || SimdHuffmanEncoder::with_config(&i.train, cfg))? else { return Ok(()) };
    c.note(&format!("tier:{:?}", e.tier()), 1); codelen_note(c, e.tree().max_code_length());
    let Some(z) = enc(c, "SimdHuffmanEncoder::encode", || e.encode(&i.data))? else { return Ok(()) };
    encoded(c, i);
    let d = HuffmanDecoder::new(e.tree().clone());
    dec(c, "HuffmanDecoder::decode(simd output)", &i.data, || d.decode(&z, i.data.len()))
}
fn t_adaptive_par(c: &mut Case, i: &Inp) -> Res {
    let Some(mut e) = enc(c, "AdaptiveParallelEncoder::new", AdaptiveParallelEncoder::new)? else { return Ok(()) };
    let (alg, var) = e.select_optimal_encoding(&i.data); c.note(&format!("selected:{alg}_{var}"), 1);
    let Some(z) = enc(c, "AdaptiveParallelEncoder::encode_adaptive", || e.encode_adaptive(&i.data))? else { return Ok(()) };
    encoded(c, i);
    let n = i.data.len();
    match alg {
        "rans" => { let fr = [1u32; 256];
            fn go<P: rans::ParallelVariant>(c: &mut Case, fr: &[u32; 256], z: &[u8], x: &[u8]) -> Res { let e = must("Rans64Encoder::new (decoder side)", "decoder_ctor", || Rans64Encoder::<P>::new(fr))?; let d = Rans64Decoder::<P>::new(&e); dec(c, "Rans64Decoder::decode(adaptive_par output)", x, || d.decode(z, x.len())) }
            match var { "x2" => go::<ParallelX2>(c, &fr, &z, &i.data), "x4" => go::<ParallelX4>(c, &fr, &z, &i.data), _ => go::<ParallelX8>(c, &fr, &z, &i.data) } }
        "fse" => { let mut d = FseDecoder::new(); dec(c, "FseDecoder::decompress(adaptive_par output)", &i.data, || d.decompress(&z)) }
        _ => { let tree = must("HuffmanTree::from_data", "decoder_ctor", || HuffmanTree::from_data(&i.data))?; let d = HuffmanDecoder::new(tree); dec(c, "HuffmanDecoder::decode(adaptive_par output)", &i.data, || d.decode(&z, n)) }
    }
}

// ---------------------------------------------------------------------------------------------
// driving loops
// ---------------------------------------------------------------------------------------------
struct Plan { trained: bool, maxlen: usize, big: bool, freq_tables: bool, deep_train: bool, huge: usize, startup: bool }

// ---------------------------------------------------------------------------------------------
// large-input (`huge_*`) families: sizes just above the 16-bit / 20-bit marks, one symbol occurring > 65535 times,
// > 1000:1 compressible shapes, X c X d with |X| >= 64 KiB, explicit frequency tables with counts up to 2^31
// ---------------------------------------------------------------------------------------------
const HUGE_LENS: &[usize] = &[65535, 65536, 65537, 131071, 131072, 131073, 131074, (1 << 20) - 1, 1 << 20, (1 << 20) + 1, (3 << 20) + 5];
const HUGE_SHAPES: &[&str] = &["dominant", "all_equal", "long_runs", "short_period", "uniform", "alpha16"];
fn huge_shape(c: &mut Case, shape: &str, len: usize) -> Vec<u8> {
    match shape {
        "dominant" => { // one symbol 60..99 % of the payload (count > 65535 once len >= 110 k), the rest spread over k other symbols
            let d = c.rng.next() as u8; let pct = *c.rng.pick(&[60u64, 80, 95, 99]); let k = *c.rng.pick(&[1u64, 15, 255]);
            (0..len).map(|_| if c.rng.below(100) < pct { d } else { d.wrapping_add(1 + c.rng.below(k) as u8) }).collect() }
        "all_equal" => { let b = if c.rng.chance(1, 8) { 0 } else { 1 + c.rng.below(255) as u8 }; vec![b; len] }
        "long_runs" => { let mut out = Vec::with_capacity(len); while out.len() < len { let b = c.rng.next() as u8; let n = 1000 + c.rng.usize_below(70000); let n = n.min(len - out.len()); out.resize(out.len() + n, b); } out }
        "short_period" => { let p = 1 + c.rng.usize_below(9); let pat = c.rng.bytes(p); (0..len).map(|i| pat[i % p]).collect() }
        "uniform" => c.rng.bytes(len),
        _ => { let s = c.rng.bytes(16); (0..len).map(|_| s[c.rng.usize_below(16)]).collect() }
    }
}
/// idx even: a length around 2^16 / 2^17; idx odd: any length up to `cap` (biased to the largest ones)
fn huge_len(c: &mut Case, idx: u64, cap: usize) -> usize {
    let all: Vec<usize> = HUGE_LENS.iter().copied().filter(|&l| l <= cap).collect(); let small: Vec<usize> = all.iter().copied().filter(|&l| l <= 131074).collect();
    if idx % 2 == 0 || all.len() == small.len() { *c.rng.pick(&small) } else if c.rng.bool() { *all.last().unwrap() } else { *c.rng.pick(&all[small.len()..]) }
}
fn huge_train(c: &mut Case, data: &[u8], trained: bool) -> (Vec<u8>, &'static str) {
    if !trained { return (data.to_vec(), "same"); }
    match c.rng.below(4) { 0 | 1 => (data.to_vec(), "same"), 2 => (data[..data.len() / 2].to_vec(), "first_half"), _ => (gen_train(c, 3, data), "cover") }
}
fn huge_cases(ctx: &mut Ctx, target: &str, p: &Plan, body: &dyn Fn(&mut Case, &Inp) -> Res) {
    if p.huge == 0 { return; }
    for idx in 0..ctx.n(4, 40) as u64 {
        ctx.case(target, "huge_len", idx, |c| {
            let len = huge_len(c, idx, p.huge); let shape = *c.rng.pick(HUGE_SHAPES); let data = huge_shape(c, shape, len);
            let (train, mode) = huge_train(c, &data, p.trained); let maxcount = *count(&data).iter().max().unwrap();
            if maxcount > 65535 { c.note("symbol_count_gt_65535", 1); } if len > 1 << 20 { c.note("len_gt_1MiB", 1); }
            let i = Inp { data, train, freqs: None, kind: 96 }; record(c, &format!("huge_{shape}"), mode, &i); body(c, &i) });
    }
    for idx in 0..ctx.n(2, 20) as u64 { // two identical halves of >= 64 KiB followed by a differing byte
        ctx.case(target, "huge_xcxd", idx, |c| {
            let xl = *c.rng.pick(&[65536usize, 65537, 70000, 131072]); let xl = xl.min(p.huge / 2);
            let kind = *c.rng.pick(&[0u32, 5, 6, 10]); let x = gen::bytes_kind(&mut c.rng, kind, xl); let cb = c.rng.next() as u8; let db = cb.wrapping_add(1 + c.rng.below(255) as u8);
            let mut data = x.clone(); data.push(cb); data.extend_from_slice(&x); data.push(db);
            let train = if p.trained && c.rng.bool() { let mut t = x.clone(); t.push(cb); t.push(db); t } else { data.clone() };
            let mode = if train == data { "same" } else { "x_only" };
            let i = Inp { data, train, freqs: None, kind }; record(c, &format!("huge_xcxd_{}", gen::byte_kind_name(kind)), mode, &i); body(c, &i) });
    }
    if p.freq_tables { for idx in 0..ctx.n(2, 30) as u64 { // explicit tables with counts far above 2^16 (sum kept below 2^32: a >= 4 GiB payload is out of scope)
        ctx.case(target, "huge_freq", idx, |c| {
            let n = *c.rng.pick(&[2usize, 3, 17, 64, 65, 66, 200, 256]); let mut all: Vec<u8> = (0..=255u8).collect(); c.rng.shuffle(&mut all); let syms: Vec<u8> = all[..n].to_vec();
            let mut f = [0u32; 256]; let big = *c.rng.pick(&[65536u32, 65537, 1 << 20, 1 << 24, 1 << 31, 3_000_000_000]);
            f[syms[0] as usize] = big; let mut left = (u32::MAX - big) as u64;
            for &s in &syms[1..] { let v = match c.rng.below(3) { 0 => 1, 1 => 1 + c.rng.below(70000), _ => 1 + c.rng.below(1 << 22) }.min(left / 2).max(1); f[s as usize] = v as u32; left -= v; }
            let len = gen::pick_len(&mut c.rng, 2000).max(2); let data: Vec<u8> = (0..len).map(|_| *c.rng.pick(&syms)).collect();
            let i = Inp { data, train: vec![], freqs: Some(f), kind: 95 }; record(c, "huge_freq", "table", &i); body(c, &i) });
    } }
}

fn drive(ctx: &mut Ctx, target: &str, p: &Plan, body: &dyn Fn(&mut Case, &Inp) -> Res) {
    if !ctx.wants(target) { return; }
    huge_cases(ctx, target, p, body);
    let modes: usize = if p.trained { 4 } else { 1 };
    let per = if p.trained { ctx.n(3, 90) } else { ctx.n(12, 360) } as u64;
    for kind in 0..gen::BYTE_KINDS { for mode in 0..modes { for idx in 0..per {
        let g = if p.trained { format!("{}/{}", gen::byte_kind_name(kind), MODES[mode]) } else { gen::byte_kind_name(kind).to_string() };
        ctx.case(target, &g, idx, |c| {
            let len = gen::pick_len(&mut c.rng, p.maxlen); let data = gen::bytes_kind(&mut c.rng, kind, len);
            let train = if p.trained { gen_train(c, mode, &data) } else { data.clone() };
            let i = Inp { data, train, freqs: None, kind }; record(c, gen::byte_kind_name(kind), if p.trained { MODES[mode] } else { "same" }, &i); body(c, &i) });
    } } }
    for (fam, q, t) in [("nsym", NSYMS.len(), NSYMS.len() * 12), ("rare_sym", 20, 600), ("modn", 24, 480)] {
        for idx in 0..ctx.n(q, t) as u64 {
            ctx.case(target, fam, idx, |c| {
                let data = directed(c, fam, idx, if p.big && fam == "rare_sym" { 65536 } else { p.maxlen }); let mode = if p.trained { c.rng.usize_below(4) } else { 0 };
                let train = gen_train(c, mode, &data);
                let i = Inp { data, train, freqs: None, kind: 99 }; record(c, fam, MODES[mode], &i); body(c, &i) });
        }
    }
    if p.trained { for idx in 0..ctx.n(12, 240) as u64 {
        // long, skewed training data over a small alphabet; the payload is cut from it and sprinkled with symbols the
        // training never saw: in context models those symbols get the longest codes of the merged trees (deep-code region)
        ctx.case(target, "foreign_sym", idx, |c| {
            let kind = *c.rng.pick(&[6u32, 6, 6, 7, 7, 7, 1, 3, 4, 5, 10, 13]); let tl = 2500 + c.rng.usize_below(1598); let train = gen::bytes_kind(&mut c.rng, kind, tl);
            let len = gen::pick_len(&mut c.rng, p.maxlen.min(1200)).max(4); let mut data = gen::related_bytes(&mut c.rng, &train, len);
            let seen = count(&train); let foreign: Vec<u8> = (0..=255u8).filter(|&b| seen[b as usize] == 0).collect();
            // related_bytes mixes in random bytes: map every unseen byte back to a seen one first, then plant 1..5 foreign symbols
            let seen_syms: Vec<u8> = (0..=255u8).filter(|&b| seen[b as usize] > 0).collect();
            for b in data.iter_mut() { if seen[*b as usize] == 0 { *b = *c.rng.pick(&seen_syms); } }
            if !foreign.is_empty() { for _ in 0..1 + c.rng.below(5) { let p = c.rng.usize_below(data.len()); data[p] = *c.rng.pick(&foreign); } }
            c.note("payload_has_symbol_unseen_in_training", 1);
            let i = Inp { data, train, freqs: None, kind }; record(c, gen::byte_kind_name(kind), "foreign", &i); body(c, &i) });
    } }
    if p.big { for idx in 0..ctx.n(6, 120) as u64 {
        ctx.case(target, "big", idx, |c| {
            let kind = c.rng.below(gen::BYTE_KINDS as u64) as u32; let len = *c.rng.pick(gen::LENS_BIG) + c.rng.usize_below(3); let data = gen::bytes_kind(&mut c.rng, kind, len);
            let mode = if p.trained { *c.rng.pick(&[0usize, 0, 2, 3]) } else { 0 }; let train = gen_train(c, mode, &data);
            let i = Inp { data, train, freqs: None, kind }; record(c, gen::byte_kind_name(kind), MODES[mode], &i); body(c, &i) });
    } }
    if p.freq_tables { for idx in 0..ctx.n(40, 800) as u64 { // encoder built from an explicit Fibonacci frequency table: optimal depth d = 1..40
        ctx.case(target, "fibfreq", idx, |c| {
            let d = 1 + (idx as usize % 40); let (f, syms) = fib_freqs(c, d); let len = gen::pick_len(&mut c.rng, 600).max(2);
            let data: Vec<u8> = (0..len).map(|_| *c.rng.pick(&syms)).collect();
            let i = Inp { data, train: vec![], freqs: Some(f), kind: 98 }; record(c, &format!("fibfreq_d{d}"), "table", &i); body(c, &i) });
    } }
    if p.deep_train { for idx in 0..ctx.n(22, 220) as u64 { // training bytes with an exact Fibonacci profile (optimal depth d = 1..22), payload uses every symbol uniformly
        ctx.case(target, "fibtrain", idx, |c| {
            let d = 1 + (idx as usize % 22); let (f, syms) = fib_freqs(c, d);
            let mut train = Vec::new(); for &s in &syms { for _ in 0..f[s as usize] { train.push(s); } } c.rng.shuffle(&mut train);
            let len = gen::pick_len(&mut c.rng, 600).max(2); let data: Vec<u8> = (0..len).map(|_| *c.rng.pick(&syms)).collect();
            c.hash_more(&(d as u64).to_le_bytes());
            let i = Inp { data, train, freqs: None, kind: 97 }; record(c, &format!("fibtrain_d{d}"), "cover", &i); body(c, &i) });
    } }
    if p.startup { startup_cases(ctx, target, body); }
}

/// `startup_*`: the first symbols a state-machine coder (rANS / FSE) processes meet a state that is still a small,
/// highly structured number (1, L, powers of two), which is where an exact-equality renormalisation bound can be hit.
/// One case = one body over a few filler symbols plus 2..3 rare symbols with the smallest byte values (so they own the
/// first table slots, normalised frequency 1..4) and EVERY tail (and, mirrored, head) of length <= 6 over
/// {rare symbols, one filler} plus runs of 1..24 of one rare symbol optionally followed by another symbol.
fn startup_cases(ctx: &mut Ctx, target: &str, body: &dyn Fn(&mut Case, &Inp) -> Res) {
    for idx in 0..ctx.n(6, 120) as u64 {
        ctx.case(target, "startup_tails", idx, |c| {
            let total = *c.rng.pick(&[4096usize, 4096, 4096, 8192, 16384, 65536]); let unit = total / 4096;
            let base = c.rng.below(2) as u8; let r = 2 + c.rng.usize_below(2); let nfill = *c.rng.pick(&[1usize, 2, 8, 8, 16]);
            let rare: Vec<u8> = (0..r as u8).map(|j| base + j).collect(); let fill: Vec<u8> = (0..nfill as u8).map(|j| base + r as u8 + j).collect();
            let mult: Vec<usize> = (0..r).map(|_| *c.rng.pick(&[1usize, 1, 2, 2, 3, 4])).collect();
            // body: fillers (round robin or random), then rare symbol j planted mult[j] * unit times at random positions
            let rr = c.rng.bool(); let mut bodyv: Vec<u8> = (0..total).map(|k| if rr { fill[k % nfill] } else { fill[c.rng.usize_below(nfill)] }).collect();
            for (j, &s) in rare.iter().enumerate() { let want = (mult[j] * unit).saturating_sub(if c.rng.bool() { 0 } else { 3.min(mult[j] * unit - 1) }); for _ in 0..want { let p = c.rng.usize_below(total); bodyv[p] = s; } }
            c.input_str("kind", &format!("startup total={total} base={base} rare={r} mult={mult:?} nfill={nfill} rr={rr}")); c.input("body", &bodyv);
            let mut alpha = rare.clone(); alpha.push(fill[0]);
            // work bound (deterministic): variants * total <= 48 MiB per case; runs first, then all tuples if they fit, else a sample
            let cap = (48usize << 20) / total / 2;
            let mut edits: Vec<Vec<u8>> = Vec::new();
            for &s in &rare { for k in 1..=24usize { edits.push(vec![s; k]); for &o in &alpha { if o != s { let mut t = vec![s; k]; t.push(o); edits.push(t.clone()); t.rotate_right(1); edits.push(t); } } } }
            let mut tuples: Vec<Vec<u8>> = Vec::new();
            for l in 1..=6u32 { for code in 0..alpha.len().pow(l) { let mut t = Vec::with_capacity(l as usize); let mut x = code; for _ in 0..l { t.push(alpha[x % alpha.len()]); x /= alpha.len(); } if t.iter().any(|b| rare.contains(b)) { tuples.push(t); } } }
            let full = edits.len() + tuples.len() <= cap;
            if full { edits.append(&mut tuples); } else { c.rng.shuffle(&mut tuples); tuples.truncate(cap.saturating_sub(edits.len())); edits.append(&mut tuples); edits.truncate(cap.max(64)); }
            c.note(if full { "startup_all_tuples_le6" } else { "startup_sampled_tuples" }, 1);
            let mut done = 0u64;
            for e in edits.iter() { for head in [false, true] {
                let mut data = bodyv.clone(); let l = e.len();
                if head { data[..l].copy_from_slice(e); } else { data[total - l..].copy_from_slice(e); }
                let i = Inp { train: data.clone(), data, freqs: None, kind: 94 };
                if let Err(mut f) = body(c, &i) { f.detail = format!("{} = {:?} over the recorded body: {}", if head { "head" } else { "tail" }, e, f.detail); return Err(f); }
                done += 1;
            } }
            c.note("startup_variants_run", done);
            Ok(()) });
    }
}

fn silence_stdout() {
    // zipora's FSE / parallel encoders println! debug traces on every call (fse.rs renormalize_encode / compress_single_internal,
    // parallel.rs ParallelHuffmanEncoder::encode); the harness never uses stdout, so point it at /dev/null.
    #[cfg(not(miri))]
    unsafe { let fd = libc::open(b"/dev/null\0".as_ptr() as *const libc::c_char, libc::O_WRONLY); if fd >= 0 { libc::dup2(fd, 1); libc::close(fd); } }
}

pub fn run(ctx: &mut Ctx) {
    silence_stdout();
    let lin = Plan { trained: true, maxlen: 4097, big: true, freq_tables: false, deep_train: false, huge: (3 << 20) + 5, startup: false };   // linear-time, trained on separate data
    let lin_small = Plan { trained: true, maxlen: 4097, big: false, freq_tables: false, deep_train: false, huge: (1 << 20) + 1, startup: false };
    let selfp = Plan { trained: false, maxlen: 4097, big: true, freq_tables: false, deep_train: false, huge: (3 << 20) + 5, startup: false }; // self-describing / self-trained
    let quad = Plan { trained: true, maxlen: 3000, big: false, freq_tables: false, deep_train: false, huge: 0, startup: false };  // quadratic search

    // --- Huffman family
    drive(ctx, "huff0", &Plan { freq_tables: true, deep_train: true, ..lin }, &|c, i| t_huff0(c, i, false));
    drive(ctx, "huff0/serde", &Plan { freq_tables: true, ..lin_small }, &|c, i| t_huff0(c, i, true));
    for (t, o) in [("ctx/o0", HuffmanOrder::Order0), ("ctx/o1", HuffmanOrder::Order1), ("ctx/o2", HuffmanOrder::Order2)] {
        drive(ctx, t, &Plan { deep_train: o == HuffmanOrder::Order0, ..lin_small }, &|c, i| t_ctx(c, i, o, false));
    }
    for (t, o) in [("ctx/serde_o0", HuffmanOrder::Order0), ("ctx/serde_o1", HuffmanOrder::Order1), ("ctx/serde_o2", HuffmanOrder::Order2)] {
        drive(ctx, t, &lin_small, &|c, i| t_ctx(c, i, o, true));
    }
    for (t, w) in [("il/x1", 1u8), ("il/x2", 2), ("il/x4", 4), ("il/x8", 8), ("il/with", 0)] { drive(ctx, t, &lin_small, &|c, i| t_il(c, i, w)); }
    // --- rANS
    let rp = Plan { freq_tables: true, startup: true, ..lin };
    drive(ctx, "rans/x1", &rp, &|c, i| t_rans::<ParallelX1>(c, i));
    drive(ctx, "rans/x2", &rp, &|c, i| t_rans::<ParallelX2>(c, i));
    drive(ctx, "rans/x4", &rp, &|c, i| t_rans::<ParallelX4>(c, i));
    drive(ctx, "rans/x8", &rp, &|c, i| t_rans::<ParallelX8>(c, i));
    drive(ctx, "rans/adaptive", &Plan { startup: true, ..selfp }, &|c, i| t_rans_adaptive(c, i));
    // --- FSE
    for (t, k) in [("fse/default", FseT::Default), ("fse/fast", FseT::Fast), ("fse/high", FseT::High), ("fse/realtime", FseT::Realtime), ("fse/balanced", FseT::Balanced), ("fse/fn", FseT::Fn), ("fse/custom", FseT::Custom)] {
        drive(ctx, t, &Plan { startup: true, ..selfp }, &|c, i| t_fse(c, i, k));
    }
    drive(ctx, "fse/dict", &Plan { startup: true, ..lin }, &|c, i| t_fse(c, i, FseT::Dict));
    drive(ctx, "fse/nonadaptive", &Plan { startup: true, ..lin }, &|c, i| t_fse(c, i, FseT::NonAdaptive));
    fse_parallel(ctx);
    // --- LZ-style dictionary coders
    drive(ctx, "dict/default", &quad, &|c, i| t_dict(c, i, false));
    drive(ctx, "dict/cfg", &quad, &|c, i| t_dict(c, i, true));
    drive(ctx, "optdict/default", &quad, &|c, i| t_optdict(c, i, false));
    drive(ctx, "optdict/cfg", &quad, &|c, i| t_optdict(c, i, true));
    // --- parallel / SIMD Huffman front-ends
    drive(ctx, "phuff/x2", &lin_small, &|c, i| t_phuff::<ParallelX2Variant>(c, i));
    drive(ctx, "phuff/x4", &lin_small, &|c, i| t_phuff::<ParallelX4Variant>(c, i));
    drive(ctx, "phuff/x8", &lin_small, &|c, i| t_phuff::<ParallelX8Variant>(c, i));
    for (t, tier) in [("simdhuff/avx2bmi2", HuffmanSimdTier::Avx2Bmi2), ("simdhuff/avx2", HuffmanSimdTier::Avx2), ("simdhuff/sse42bmi2", HuffmanSimdTier::Sse42Bmi2), ("simdhuff/sse42", HuffmanSimdTier::Sse42), ("simdhuff/bmi2", HuffmanSimdTier::Bmi2), ("simdhuff/scalar", HuffmanSimdTier::Scalar)] {
        drive(ctx, t, &Plan { deep_train: true, ..lin }, &|c, i| t_simd(c, i, tier));
    }
    drive(ctx, "adaptive_par", &selfp, &|c, i| t_adaptive_par(c, i));
    huge_special(ctx);
    gap_cases(ctx);
}

/// `huge_*` families that need a target-specific shape or configuration to stay linear-time.
fn huge_special(ctx: &mut Ctx) {
    // DictionaryCompressor searches a 32 KiB window exhaustively (quadratic): only shapes that one match record can cover are affordable.
    // With max_match_length >= |x| a run / short period is coded as ~10 literals + one match whose length field exceeds 2^16 (and 2^20).
    for idx in 0..ctx.n(3, 30) as u64 {
        ctx.case("dict/cfg", "huge_run", idx, |c| {
            let len = *c.rng.pick(&[65537usize, 131073, (1 << 20) + 1]); let shape = if c.rng.bool() { "all_equal" } else { "short_period" }; let data = huge_shape(c, shape, len);
            let mn = *c.rng.pick(&[1usize, 3, 10, 64]); let mx = 4usize << 20;
            c.input_str("cfg", &format!("min_match={mn} max_match={mx} builder(default)")); c.note("match_len_gt_65535", 1);
            let i = Inp { data, train: vec![], freqs: None, kind: 96 }; record(c, &format!("huge_{shape}"), "same", &i);
            let comp = DictionaryCompressor::new(DictionaryBuilder::new().build(&i.data[..256])).min_match_length(mn).max_match_length(mx);
            let Some(z) = enc(c, "DictionaryCompressor::compress", || comp.compress(&i.data))? else { return Ok(()) };
            encoded(c, &i); if z.len() < 2 * i.data.len() { c.note("used_backrefs", 1); }
            dec(c, "DictionaryCompressor::decompress", &i.data, || comp.decompress(&z)) });
    }
    // OptimizedDictionaryCompressor is linear on high-entropy text (one candidate per hash): positions > 2^16, and with a 1 MiB window
    // back-reference distances > 2^16 (X c X d) and, with a large max_match_length, match lengths > 2^16.
    for (target, cfgd) in [("optdict/default", false), ("optdict/cfg", true)] { for idx in 0..ctx.n(3, 30) as u64 {
        ctx.case(target, "huge_xcxd", idx, |c| {
            let xl = *c.rng.pick(&[65536usize, 65537, 70000, 131072]); let x = c.rng.bytes(xl); let cb = c.rng.next() as u8; let db = cb.wrapping_add(1 + c.rng.below(255) as u8);
            let mut data = x.clone(); data.push(cb); data.extend_from_slice(&x); data.push(db);
            let train = match c.rng.below(3) { 0 => { let mut t = x.clone(); t.push(cb); t } 1 => c.rng.bytes(65537), _ => data.clone() };
            let (mn, mx, w) = if cfgd { (*c.rng.pick(&[3usize, 10, 12]), *c.rng.pick(&[258usize, 65536, 4 << 20]), *c.rng.pick(&[65536usize, 1 << 20, 1 << 24])) } else { (3, 258, 32768) };
            if cfgd { c.input_str("cfg", &format!("min_match={mn} max_match={mx} window={w}")); }
            if xl + 1 <= w { c.note("backref_distance_gt_65535_possible", 1); }
            let i = Inp { data, train, freqs: None, kind: 0 }; record(c, "huge_xcxd_uniform", if i.train == i.data { "same" } else { "other" }, &i);
            if i.train != i.data { c.tag("optdict_train_ne_payload"); }
            let comp = if cfgd { enc(c, "OptimizedDictionaryCompressor::with_config", || OptimizedDictionaryCompressor::with_config(&i.train, mn, mx, w))? } else { enc(c, "OptimizedDictionaryCompressor::new", || OptimizedDictionaryCompressor::new(&i.train))? };
            let Some(comp) = comp else { return Ok(()) };
            let Some(z) = enc(c, "OptimizedDictionaryCompressor::compress", || comp.compress(&i.data))? else { return Ok(()) };
            encoded(c, &i); if z.len() < 2 * i.data.len() - 1000 { c.note("used_backrefs", 1); }
            dec(c, "OptimizedDictionaryCompressor::decompress", &i.data, || comp.decompress(&z)) });
    } }
    // AdaptiveParallelEncoder: one case per branch that needs a large payload (fse needs > 1 MiB; x4 >= 64 KiB; x8 >= 1 MiB)
    for idx in 0..ctx.n(5, 40) as u64 {
        ctx.case("adaptive_par", "huge_branch", idx, |c| {
            let (shape, len) = match idx % 5 { 0 => ("alpha16", (1 << 20) + 1 + c.rng.usize_below(70000)), 1 => ("uniform", (1 << 20) + c.rng.usize_below(3)), 2 => ("uniform", 65536 + c.rng.usize_below(70000)),
                3 => ("dominant", (1 << 20) + 1 + c.rng.usize_below(9)), _ => ("alpha16", 65536 + c.rng.usize_below(3)) };
            let data = huge_shape(c, shape, len); let i = Inp { train: data.clone(), data, freqs: None, kind: 96 }; record(c, &format!("huge_{shape}"), "same", &i); t_adaptive_par(c, &i) });
    }
    // AdaptiveRans64Encoder picks the x8 variant only from 73^4 = 28 398 241 bytes
    for idx in 0..ctx.n(1, 4) as u64 {
        ctx.case("rans/adaptive", "huge_x8", idx, |c| {
            let len = 73 * 73 * 73 * 73 + c.rng.usize_below(9); let shape = *c.rng.pick(&["dominant", "alpha16", "long_runs"]); let data = huge_shape(c, shape, len);
            let i = Inp { train: vec![], data, freqs: None, kind: 96 }; c.input_str("kind", &format!("huge_{shape}")); c.input("data", &i.data); t_rans_adaptive(c, &i) });
    }
    // high_compression(): more than 64 blocks of 128 KiB
    for idx in 0..ctx.n(1, 6) as u64 {
        ctx.case("fse/high", "huge_blocks_gt_64", idx, |c| {
            let len = 64 * 128 * 1024 + 1 + c.rng.usize_below(300000); let shape = *c.rng.pick(&["dominant", "alpha16", "long_runs", "uniform"]); let data = huge_shape(c, shape, len);
            let cfg = FseConfig::high_compression(); let i = Inp { data, train: vec![], freqs: None, kind: 96 }; c.input_str("kind", &format!("huge_{shape}")); c.input("data", &i.data);
            c.note("path:parallel_blocks", 1); c.tag("fse_parallel_blocks_gt_64");
            fse_roundtrip(c, &cfg, &i.data, &i, true) });
    }
}

/// FSE parallel-block path: `parallel_blocks = Some(k)` and a payload longer than 2 x block_size.
fn fse_parallel(ctx: &mut Ctx) {
    if ctx.wants("fse/parallel") {
        for kind in 0..gen::BYTE_KINDS { for idx in 0..ctx.n(10, 300) as u64 {
            ctx.case("fse/parallel", gen::byte_kind_name(kind), idx, |c| {
                let bs = *c.rng.pick(&[128usize, 256, 1000, 4096]); let k = *c.rng.pick(&[2usize, 3, 4, 8]);
                let nblk = match c.rng.below(6) { 0 => 65 + c.rng.usize_below(8), 1 => 64, _ => 2 + c.rng.usize_below(12) };
                let tail = *c.rng.pick(&[0usize, 1, 50, 99, 100, 101, 127]); let tail = if nblk == 2 && tail == 0 { 1 } else { tail.min(bs - 1) };
                let len = nblk * bs + tail; let blocks = nblk + (tail > 0) as usize;
                let data = gen::bytes_kind(&mut c.rng, kind, len);
                let cfg = FseConfig { parallel_blocks: Some(k), block_size: bs, ..FseConfig::default() };
                c.input_str("cfg", &format!("parallel_blocks=Some({k}) block_size={bs} (rest default)"));
                let i = Inp { data, train: vec![], freqs: None, kind }; c.input_str("kind", gen::byte_kind_name(kind)); c.input("data", &i.data);
                c.note(&format!("blocks:{}", if blocks > 64 { ">64" } else { "2-64" }), 1);
                if blocks > 64 { c.tag("fse_parallel_blocks_gt_64"); }
                let fr = count(&i.data); for ch in i.data.chunks(bs) { fse_tags(c, &cfg, &fr, ch); }
                let object_api = c.rng.bool();
                fse_roundtrip(c, &cfg, &i.data, &i, object_api) });
        } }
    }
    // the high_compression preset enables the parallel path only above 2 x 128 KiB
    if ctx.wants("fse/high") { for idx in 0..ctx.n(3, 40) as u64 {
        ctx.case("fse/high", "par_gt_256k", idx, |c| {
            let kind = c.rng.below(gen::BYTE_KINDS as u64) as u32; let len = 2 * 128 * 1024 + 1 + c.rng.usize_below(70000); let data = gen::bytes_kind(&mut c.rng, kind, len);
            let cfg = FseConfig::high_compression(); let i = Inp { data, train: vec![], freqs: None, kind }; c.input_str("kind", gen::byte_kind_name(kind)); c.input("data", &i.data);
            c.note("path:parallel_blocks", 1);
            let fr = count(&i.data); for ch in i.data.chunks(cfg.block_size) { fse_tags(c, &cfg, &fr, ch); }
            fse_roundtrip(c, &cfg, &i.data, &i, true) });
    } }
}

// ---------------------------------------------------------------------------------------------
// gap families (functions of the anchor files that no earlier case reached): bit-level field coders of bit_ops.rs,
// Dictionary save/load, FSE encoder/decoder reset + table helpers, rANS table invariant, SimdHuffmanEncoder::new
// ---------------------------------------------------------------------------------------------
use zipora::entropy::bit_ops::{BitOps, BitOpsConfig, CompressionBmi2Dispatcher, CompressionOperation, EntropyBitOps};
use zipora::entropy::dictionary::{Dictionary, DictionaryEntry};
use zipora::entropy::fse::{FastDivision, FseTable};

fn pdep_ref(src: u64, mask: u64) -> u64 { let (mut r, mut k) = (0u64, 0u32); for b in 0..64 { if (mask >> b) & 1 == 1 { if (src >> k) & 1 == 1 { r |= 1u64 << b; } k += 1; } } r }
fn pext_ref(src: u64, mask: u64) -> u64 { let (mut r, mut k) = (0u64, 0u32); for b in 0..64 { if (mask >> b) & 1 == 1 { if (src >> b) & 1 == 1 { r |= 1u64 << k; } k += 1; } } r }
fn low_mask(n: u32) -> u64 { if n >= 64 { u64::MAX } else { (1u64 << n) - 1 } }
/// 64-bit words with the shapes that matter for masks: sparse, dense, runs, low/high fields, 0 and !0
fn word(c: &mut Case) -> u64 {
    match c.rng.below(8) { 0 => 0, 1 => u64::MAX, 2 => c.rng.next() & c.rng.next() & c.rng.next(), 3 => c.rng.next() | c.rng.next() | c.rng.next(),
        4 => { let w = c.rng.range(1, 64) as u32; let s = c.rng.below((65 - w) as u64) as u32; low_mask(w) << s }, 5 => 1u64 << c.rng.below(64), 6 => c.rng.next() as u32 as u64, _ => c.rng.next() }
}
fn bitops_cfg(c: &mut Case, which: &str) -> BitOpsConfig {
    match which {
        "hw" => BitOpsConfig::default(),
        "sw" => BitOpsConfig { enable_bmi2: false, enable_avx2: false, enable_popcnt: false, software_fallback: true, enable_compression_optimizations: false, enable_entropy_acceleration: false, enable_variable_length_decoding: false },
        _ => BitOpsConfig { enable_bmi2: c.rng.bool(), enable_avx2: c.rng.bool(), enable_popcnt: c.rng.bool(), software_fallback: true, enable_compression_optimizations: c.rng.bool(), enable_entropy_acceleration: c.rng.bool(), enable_variable_length_decoding: c.rng.bool() },
    }
}
/// Field coders: encode_variable_length -> decode_variable_length / dispatch_entropy_extract, pack_bits -> extract_bits,
/// deposit -> extract, interleave -> de-interleave, reverse -> reverse.  Identity oracle on the coded value.
fn t_bitops_roundtrip(c: &mut Case, which: &str) -> Res {
    let cfg = bitops_cfg(c, which); c.input_str("cfg", &format!("{cfg:?}"));
    let seed = c.rng.next(); c.input("stream_seed", &seed.to_le_bytes()); let mut r = crate::rng::Rng::new(seed); std::mem::swap(&mut c.rng, &mut r);
    let b = BitOps::with_config(cfg.clone()); let eb = EntropyBitOps::with_config(cfg.clone()); let disp = CompressionBmi2Dispatcher::with_config(cfg.clone());
    c.set_nontrivial(true);
    for _ in 0..64 {
        // variable-length field: value -> field -> placed at start_bit among noise -> decoded
        let length = c.rng.range(1, 32) as u32; let value = c.rng.next() as u32; let want = (value as u64 & low_mask(length)) as u32;
        let start = c.rng.below((65 - length) as u64) as u32;
        if let Some(f) = enc(c, "encode_variable_length_bmi2", || b.encode_variable_length_bmi2(value, length))? {
            crate::ensure!(f == want as u64, "bitfield_encode_mismatch", "encode_variable_length_bmi2({value:#x},{length})={f:#x} want {want:#x}");
            let noise = c.rng.next() & !(low_mask(length) << start); let stream = (f << start) | noise;
            let got = must("decode_variable_length_bmi2", "bitfield_decode_err", || b.decode_variable_length_bmi2(stream, start, length))?; c.ev(1);
            crate::ensure!(got == want, "bitfield_roundtrip_mismatch", "decode_variable_length_bmi2({stream:#x},{start},{length})={got:#x} want {want:#x}");
            let got = crate::ctx::nopanic("dispatch_entropy_extract", || disp.dispatch_entropy_extract(stream, start, length))?; c.ev(1);
            crate::ensure!(got == want, "bitfield_roundtrip_mismatch", "dispatch_entropy_extract({stream:#x},{start},{length})={got:#x} want {want:#x}");
        }
        // pack_bits (MSB-first offset in a 64-bit word) read back directly, and through extract_bits (16-bit window, offset >= 1)
        let width = c.rng.range(1, 32) as u32; let offset = c.rng.below((65 - width) as u64) as u32; let v = c.rng.next() as u32; let wantv = (v as u64 & low_mask(width)) as u32;
        let mut stream = 0u64;
        if enc(c, "pack_bits", || eb.pack_bits(&mut stream, v, offset, width))?.is_some() {
            let back = ((stream >> (64 - offset - width)) & low_mask(width)) as u32; c.ev(1);
            crate::ensure!(back == wantv && stream & !(low_mask(width) << (64 - offset - width)) == 0, "packbits_roundtrip_mismatch", "pack_bits(0,{v:#x},{offset},{width}) -> {stream:#x}, field reads {back:#x} want {wantv:#x}");
        }
        let w16 = c.rng.range(1, 15) as u32; let o16 = c.rng.range(1, (16 - w16) as u64) as u32; let want16 = (v as u64 & low_mask(w16)) as u32; let mut s16 = 0u64;
        if enc(c, "pack_bits", || eb.pack_bits(&mut s16, v, 48 + o16, w16))?.is_some() {
            let got = crate::ctx::nopanic("extract_bits", || eb.extract_bits(s16, o16, w16))?; c.ev(1);
            crate::ensure!(got == want16, "packbits_roundtrip_mismatch", "pack_bits(0,{v:#x},48+{o16},{w16}) -> {s16:#x}; extract_bits(..,{o16},{w16})={got:#x} want {want16:#x}");
        }
        // deposit -> extract (64 and 32 bit), benchmark wrappers, model of both directions
        let (x, m) = (word(c), word(c)); let k = m.count_ones();
        let d = crate::ctx::nopanic("parallel_deposit64", || b.parallel_deposit64(x, m))?; let e = crate::ctx::nopanic("parallel_extract64", || b.parallel_extract64(d, m))?; c.ev(3);
        crate::ensure!(e == x & low_mask(k), "pdep_pext_roundtrip_mismatch", "pext64(pdep64({x:#x},{m:#x})={d:#x},m)={e:#x} want {:#x}", x & low_mask(k));
        crate::ensure!(d == pdep_ref(x, m), "bitops_model_mismatch", "parallel_deposit64({x:#x},{m:#x})={d:#x} want {:#x}", pdep_ref(x, m));
        let e2 = b.parallel_extract64(x, m); crate::ensure!(e2 == pext_ref(x, m), "bitops_model_mismatch", "parallel_extract64({x:#x},{m:#x})={e2:#x} want {:#x}", pext_ref(x, m));
        crate::ensure!(b.pdep_u64(x, m) == d && b.pext_u64(x, m) == e2, "bitops_wrapper_mismatch", "pdep_u64/pext_u64 differ from parallel_deposit64/parallel_extract64 for x={x:#x} m={m:#x}");
        let z = b.zero_high_bits64(x, b.popcount64(m)); crate::ensure!(z == x & low_mask(k), "bitops_model_mismatch", "zero_high_bits64({x:#x}, popcount64({m:#x}))={z:#x} want {:#x}", x & low_mask(k));
        let (x3, m3) = (x as u32, m as u32); let k3 = m3.count_ones();
        let d3 = b.parallel_deposit32(x3, m3); let e3 = b.parallel_extract32(d3, m3); c.ev(3);
        crate::ensure!(e3 as u64 == x3 as u64 & low_mask(k3), "pdep_pext_roundtrip_mismatch", "pext32(pdep32({x3:#x},{m3:#x})={d3:#x},m)={e3:#x}");
        crate::ensure!(d3 as u64 == pdep_ref(x3 as u64, m3 as u64) && b.parallel_extract32(x3, m3) as u64 == pext_ref(x3 as u64, m3 as u64), "bitops_model_mismatch", "parallel_deposit32/extract32({x3:#x},{m3:#x})");
        let z3 = b.zero_high_bits32(x3, b.popcount32(m3)); crate::ensure!(z3 as u64 == x3 as u64 & low_mask(k3), "bitops_model_mismatch", "zero_high_bits32({x3:#x}, popcount32({m3:#x}))={z3:#x}");
        // select = position of the k-th deposited bit; trailing zeros
        let kk = c.rng.below(66) as u32;
        let s = b.select_bit64(m, kk); let wants = if kk < k { Some(pdep_ref(1u64 << kk, m).trailing_zeros()) } else { None }; c.ev(2);
        crate::ensure!(s == wants, "bitops_model_mismatch", "select_bit64({m:#x},{kk})={s:?} want {wants:?}");
        let s = b.select_bit32(m3, kk); let wants = if kk < k3 { Some(pdep_ref(1u64 << kk, m3 as u64).trailing_zeros()) } else { None };
        crate::ensure!(s == wants, "bitops_model_mismatch", "select_bit32({m3:#x},{kk})={s:?} want {wants:?}");
        crate::ensure!(b.trailing_zeros64(m) == m.trailing_zeros() && b.trailing_zeros32(m3) == m3.trailing_zeros(), "bitops_model_mismatch", "trailing_zeros64/32({m:#x})");
        // interleave -> de-interleave; reversal is an involution and equals the bit mirror
        let (lo, hi) = (c.rng.next() as u32, word(c) as u32); let il = b.bit_interleaving_bmi2(lo, hi); c.ev(2);
        crate::ensure!(pext_ref(il, 0x5555_5555_5555_5555) == lo as u64 && pext_ref(il, 0xAAAA_AAAA_AAAA_AAAA) == hi as u64, "interleave_roundtrip_mismatch", "bit_interleaving_bmi2({lo:#x},{hi:#x})={il:#x}");
        let r64 = b.reverse_bits64(x); crate::ensure!(r64 == x.reverse_bits() && b.reverse_bits64(r64) == x && b.bit_reverse_bmi2(x) == r64, "bitreverse_mismatch", "reverse_bits64/bit_reverse_bmi2({x:#x})={r64:#x}");
        let r32 = b.reverse_bits32(x3); let r32e = eb.reverse_bits32(x3); c.ev(2);
        crate::ensure!(r32 == x3.reverse_bits() && b.reverse_bits32(r32) == x3, "bitreverse_mismatch", "BitOps::reverse_bits32({x3:#x})={r32:#x}");
        crate::ensure!(r32e == x3.reverse_bits() && eb.reverse_bits32(r32e) == x3, "bitreverse_mismatch", "EntropyBitOps::reverse_bits32({x3:#x})={r32e:#x} want {:#x}", x3.reverse_bits());
        // multi-field extraction == the sequence of single extractions
        let nm = c.rng.range(1, 6) as usize; let masks: Vec<u64> = (0..nm).map(|_| word(c)).collect();
        let single: Vec<u64> = masks.iter().map(|&mk| pext_ref(x, mk)).collect(); let single32: Vec<u32> = single.iter().map(|&v| v as u32).collect(); c.ev(4);
        let g = crate::ctx::nopanic("parallel_bit_extract_bmi2", || b.parallel_bit_extract_bmi2(x, &masks))?; crate::ensure!(g == single, "batch_ne_single", "parallel_bit_extract_bmi2({x:#x},{masks:x?})={g:x?} want {single:x?}");
        let g = crate::ctx::nopanic("extract_huffman_symbols_bmi2", || b.extract_huffman_symbols_bmi2(x, &masks))?; crate::ensure!(g == single32, "batch_ne_single", "extract_huffman_symbols_bmi2({x:#x},{masks:x?})={g:x?} want {single32:x?}");
        let g = crate::ctx::nopanic("dispatch_variable_length_decode", || disp.dispatch_variable_length_decode(x, &masks))?; crate::ensure!(g == single32, "batch_ne_single", "dispatch_variable_length_decode({x:#x},{masks:x?})={g:x?} want {single32:x?}");
        let off = c.rng.next() as u32;
        crate::ensure!(b.decode_rans_symbols_bmi2(x, m) == pext_ref(x, m) as u32 && b.fse_decode_bmi2(x, m, off) == (pext_ref(x, m) as u32).wrapping_add(off), "bitops_model_mismatch", "decode_rans_symbols_bmi2/fse_decode_bmi2({x:#x},{m:#x},{off})");
    }
    // word-array operations == per-word model
    let n = *c.rng.pick(&[0usize, 1, 3, 4, 5, 8, 17, 64]); let data: Vec<u64> = (0..n).map(|_| word(c)).collect(); c.ev(5);
    let pc: Vec<u32> = data.iter().map(|w| w.count_ones()).collect();
    let g = crate::ctx::nopanic("vectorized_popcount", || b.vectorized_popcount(&data))?; crate::ensure!(g == pc, "batch_ne_single", "vectorized_popcount({data:x?})={g:?} want {pc:?}");
    for (op, name) in [(CompressionOperation::PopCount, "PopCount"), (CompressionOperation::LeadingZeros, "LeadingZeros"), (CompressionOperation::TrailingZeros, "TrailingZeros"), (CompressionOperation::BitReverse, "BitReverse")] {
        let want: Vec<u64> = data.iter().map(|&w| match name { "PopCount" => w.count_ones() as u64, "LeadingZeros" => w.leading_zeros() as u64, "TrailingZeros" => w.trailing_zeros() as u64, _ => w.reverse_bits() }).collect();
        let g = crate::ctx::nopanic("dispatch_bit_stream_process", || disp.dispatch_bit_stream_process(&data, op))?; crate::ensure!(g == want, "batch_ne_single", "dispatch_bit_stream_process({data:x?},{name})={g:x?} want {want:x?}");
    }
    std::mem::swap(&mut c.rng, &mut r);
    Ok(())
}
/// pack_bits at the end of the word: offset <= 64 and width <= 32 pass the parameter check; a field that does not fit must be
/// refused (Err) or clipped without touching other bits, never panic (the API has an error channel).
fn t_packbits_edge(c: &mut Case, which: &str) -> Res {
    let cfg = bitops_cfg(c, which); let eb = EntropyBitOps::with_config(cfg);
    let width = c.rng.range(0, 32) as u32; let fits = c.rng.bool(); let offset = if fits { 64 - width - c.rng.below(3).min((64 - width) as u64) as u32 } else { c.rng.range(64 - width as u64, 64) as u32 };
    let v = c.rng.next() as u32; let before = if c.rng.bool() { 0 } else { c.rng.next() };
    c.input_str("args", &format!("stream={before:#x} value={v:#x} offset={offset} width={width}")); c.set_nontrivial(true);
    if offset + width > 64 { c.tag("packbits_field_past_word_end"); }
    let mut stream = before; c.ev(1);
    match catch(|| eb.pack_bits(&mut stream, v, offset, width)) {
        Err(p) => Err(bad("packbits_panic", format!("pack_bits(offset={offset}, width={width}) panicked at {}: {}", p.loc, p.msg))),
        Ok(Err(_)) => { c.note("refused:pack_bits", 1); crate::ensure!(stream == before, "packbits_err_modified_stream", "stream {before:#x} -> {stream:#x} although Err"); Ok(()) }
        Ok(Ok(())) => { if offset + width <= 64 && width > 0 { let sh = 64 - offset - width; let want = before | ((v as u64 & low_mask(width)) << sh); crate::ensure!(stream == want, "packbits_roundtrip_mismatch", "pack_bits({before:#x},{v:#x},{offset},{width}) -> {stream:#x} want {want:#x}"); } else { c.note("packbits_out_of_word_accepted", 1); } Ok(()) }
    }
}

fn dict_records(ser: &[u8]) -> Option<Vec<(Vec<u8>, DictionaryEntry)>> {
    let rd32 = |o: usize| -> Option<u32> { Some(u32::from_le_bytes(ser.get(o..o + 4)?.try_into().ok()?)) };
    let n = rd32(0)? as usize; let mut o = 4; let mut out = Vec::new();
    for _ in 0..n { let l = u16::from_le_bytes(ser.get(o..o + 2)?.try_into().ok()?) as usize; o += 2; let s = ser.get(o..o + l)?.to_vec(); o += l; out.push((s, DictionaryEntry::new(rd32(o)?, rd32(o + 4)?))); o += 8; }
    if o == ser.len() { Some(out) } else { None }
}
/// Dictionary save/load: serialize -> deserialize preserves every entry, and a compressor built on the loaded dictionary decodes
/// what a compressor built on the original one produced (and vice versa).
fn t_dict_serde(c: &mut Case, i: &Inp) -> Res {
    let handmade = c.rng.chance(1, 3); c.input_str("dictionary", if handmade { "new+insert" } else { "builder" });
    let mut model: std::collections::BTreeMap<Vec<u8>, DictionaryEntry> = Default::default();
    let d = if handmade {
        let mut d = Dictionary::new(); crate::ensure!(d.is_empty() && d.len() == 0, "dict_model_mismatch", "new dictionary: len={} is_empty={}", d.len(), d.is_empty());
        for _ in 0..c.rng.below(40) { let l = *c.rng.pick(&[0usize, 1, 2, 3, 4, 8, 255, 256, 300]); let s = if !model.is_empty() && c.rng.chance(1, 5) { model.keys().next().unwrap().clone() } else { let k = c.rng.below(gen::BYTE_KINDS as u64) as u32; gen::bytes_kind(&mut c.rng, k, l) };
            let e = DictionaryEntry::new(c.rng.next() as u32, c.rng.next() as u32); d.insert(s.clone(), e.clone()); model.insert(s, e); }
        d
    } else {
        let tr = &i.train[..i.train.len().min(384)];
        let (be, bmn, bmx, bw) = (*c.rng.pick(&[1usize, 16, 4096]), *c.rng.pick(&[1usize, 3, 8]), *c.rng.pick(&[1usize, 3, 8, 258, 1000]), *c.rng.pick(&[1usize, 64, 32768]));
        c.input_str("builder", &format!("max_entries={be} min_match={bmn} max_match={bmx} window={bw}"));
        let Some(d) = enc(c, "DictionaryBuilder::build", || Ok::<_, String>(DictionaryBuilder::new().max_entries(be).min_match_length(bmn).max_match_length(bmx).window_size(bw).build(tr)))? else { return Ok(()) };
        d
    };
    let ser = crate::ctx::nopanic("Dictionary::serialize", || d.serialize())?;
    let Some(recs) = dict_records(&ser) else { return crate::ctx::fail("dict_serialize_format", format!("serialize() output of {} bytes does not parse as the documented record list", ser.len())) };
    c.note(if recs.is_empty() { "dict_entries:0" } else { "dict_entries:>0" }, 1); c.set_nontrivial(!recs.is_empty());
    crate::ensure!(recs.len() == d.len() && d.is_empty() == recs.is_empty(), "dict_model_mismatch", "serialize() holds {} records, len()={} is_empty()={}", recs.len(), d.len(), d.is_empty());
    if handmade { crate::ensure!(d.len() == model.len(), "dict_model_mismatch", "len()={} after inserting {} distinct sequences", d.len(), model.len());
        for (s, e) in &model { c.ev(1); crate::ensure!(d.get(s) == Some(e), "dict_lost_entry", "get({}) = {:?} want {:?}", gen::abbrev(s), d.get(s), e); }
        let absent = c.rng.bytes(5); if !model.contains_key(&absent) { crate::ensure!(d.get(&absent).is_none(), "dict_model_mismatch", "get(absent) is Some"); } }
    let d2 = must("Dictionary::deserialize(serialize())", "deserialize_err", || Dictionary::deserialize(&ser))?;
    crate::ensure!(d2.len() == d.len(), "dict_serde_mismatch", "len {} -> {} through serialize/deserialize", d.len(), d2.len());
    for (s, e) in &recs { c.ev(2); crate::ensure!(d.get(s) == Some(e), "dict_serde_mismatch", "serialized record {} {:?} but get() = {:?}", gen::abbrev(s), e, d.get(s));
        crate::ensure!(d2.get(s) == Some(e), "dict_serde_mismatch", "entry {} {:?} became {:?} through serialize/deserialize", gen::abbrev(s), e, d2.get(s)); }
    let (mn, mx) = (*c.rng.pick(&[1usize, 3, 4, 10]), *c.rng.pick(&[3usize, 10, 16, 258, 1000])); c.input_str("cfg", &format!("min_match={mn} max_match={mx}"));
    let a = DictionaryCompressor::new(d).min_match_length(mn).max_match_length(mx); let b = DictionaryCompressor::new(d2).min_match_length(mn).max_match_length(mx);
    crate::ensure!(a.dictionary().len() == recs.len(), "dict_model_mismatch", "compressor.dictionary().len()={} want {}", a.dictionary().len(), recs.len());
    let swap = c.rng.bool(); let (e, dd) = if swap { (&b, &a) } else { (&a, &b) }; c.input_str("direction", if swap { "loaded->original" } else { "original->loaded" });
    let Some(z) = enc(c, "DictionaryCompressor::compress", || e.compress(&i.data))? else { return Ok(()) };
    encoded(c, i);
    dec(c, "DictionaryCompressor::decompress(other side of save/load)", &i.data, || dd.decompress(&z))
}

/// FseEncoder::reset / FseDecoder::reset: a reset coder behaves like a fresh one (payload round-trips after unrelated earlier work).
fn t_fse_reset(c: &mut Case, i: &Inp) -> Res {
    let x = &i.data;
    let (name, cfg) = match c.rng.below(6) { 0 => ("default", FseConfig::default()), 1 => ("fast", FseConfig::fast_compression()), 2 => ("high", FseConfig::high_compression()), 3 => ("realtime", FseConfig::realtime()), 4 => ("balanced", FseConfig::balanced()), _ => ("nonadaptive", FseConfig { adaptive: false, ..FseConfig::default() }) };
    c.input_str("cfg", name); if x.len() < 100 { c.note("stored_lt_100", 1); } else { c.note("coded_ge_100", 1); }
    fse_tags(c, &cfg, &count(x), x);
    let Some(mut e) = enc(c, "FseEncoder::new", || FseEncoder::new(cfg.clone()))? else { return Ok(()) };
    let first = catch(|| e.compress(&i.train)); c.note(if matches!(first, Ok(Ok(_))) { "first_payload:ok" } else { "first_payload:refused" }, 1);
    crate::ctx::nopanic("FseEncoder::reset", || e.reset())?;
    let Some(z) = enc(c, "FseEncoder::compress(after reset)", || e.compress(x))? else { return Ok(()) };
    encoded(c, i);
    // a fresh encoder must produce a stream the same decoder accepts; byte equality is noted, not asserted (not stated anywhere)
    if let Ok(Ok(mut f)) = catch(|| FseEncoder::new(cfg.clone())) { if let Ok(Ok(zf)) = catch(|| f.compress(x)) { c.note(if zf == z { "reset_stream_eq_fresh" } else { "reset_stream_ne_fresh" }, 1); } }
    let mut d = must("FseDecoder::with_config", "decoder_ctor", || FseDecoder::with_config(cfg.clone()))?;
    if let Ok(Ok(z0)) = &first { let _ = catch(|| d.decompress(z0)); }
    crate::ctx::nopanic("FseDecoder::reset", || d.reset())?;
    dec(c, "FseDecoder::decompress(after reset)", x, || d.decompress(&z))?;
    dec(c, "FseDecoder::decompress(again after reset)", x, || { d.reset(); d.decompress(&z) })
}
/// FseTable helpers: table_size, encode_symbol_accelerated == encode_symbol.
fn t_fse_table(c: &mut Case, i: &Inp) -> Res {
    let table_log = c.rng.range(5, 15) as u8; let cfg = FseConfig { table_log, max_table_size: (1usize << table_log).max(4096), entropy_optimization: c.rng.bool(), ..FseConfig::default() };
    c.input_str("cfg", &format!("table_log={table_log} entropy_optimization={}", cfg.entropy_optimization));
    let fr = count(&i.data);
    let Some(t) = enc(c, "FseTable::new", || FseTable::new(&fr, &cfg))? else { return Ok(()) };
    c.set_nontrivial(true); c.ev(1);
    crate::ensure!(t.table_size() == 1usize << t.table_log, "fse_table_size", "table_size()={} table_log={}", t.table_size(), t.table_log);
    for s in 0..=255u8 { for _ in 0..4 {
        let st = match c.rng.below(4) { 0 => 1 + c.rng.below(4096), 1 => 1u64 << c.rng.range(12, 32), 2 => c.rng.next() >> 32, _ => 1 + c.rng.below(1 << 20) };
        let a = catch(|| t.encode_symbol(s, st)); let b = catch(|| t.encode_symbol_accelerated(s, st)); c.ev(1);
        match (a, b) { (Ok(a), Ok(b)) => crate::ensure!(a == b, "accelerated_ne_plain", "encode_symbol({s},{st})={a:?} encode_symbol_accelerated={b:?}"), (Err(_), Err(_)) => c.note("encode_symbol_panics_both", 1),
            (a, b) => return crate::ctx::fail("accelerated_ne_plain", format!("encode_symbol({s},{st}) panicked={} encode_symbol_accelerated panicked={}", a.is_err(), b.is_err())) }
        if fr[s as usize] > 0 && t.enc_symbols[s as usize].freq == 0 { c.note("present_symbol_without_slot", 1); }
    } }
    Ok(())
}
/// FastDivision ("fast division using reciprocal multiplication", the helper stored in every FseTable): quotient and remainder
/// equal the exact ones for every u32 dividend.
fn t_fastdiv(c: &mut Case) -> Res {
    let small = c.rng.bool(); c.input_str("operand_range", if small { "< 2^31" } else { "full u32" });
    let seed = c.rng.next(); c.input("stream_seed", &seed.to_le_bytes()); c.set_nontrivial(true);
    let mut r = crate::rng::Rng::new(seed);
    for _ in 0..256 {
        let d = match r.below(5) { 0 => 1 + r.below(16) as u32, 1 => 1u32 << r.below(32), 2 => 1 + r.below(4096) as u32, 3 => 1 + r.below(1 << 16) as u32, _ => (r.next() as u32).max(1) };
        let x = match r.below(4) { 0 => u32::MAX - r.below(4) as u32, 1 => d.wrapping_mul(r.below(1 << 16) as u32).wrapping_sub(r.below(2) as u32), 2 => r.below((d as u64) << 8) as u32, _ => r.next() as u32 };
        let (x, d) = if small { (x >> 1, (d >> 1).max(1)) } else { (x, d) };
        if d >= 1 << 31 { c.tag("fastdiv_divisor_ge_2pow31"); } // bitlen(d) = 32: the quotient shift is 64
        // input-only predicate: dividend * ceil(2^(32+bitlen(d)) / d) does not fit in 64 bits
        let bl = 32 - d.leading_zeros(); let mult = ((1u128 << (32 + bl)) + d as u128 - 1) / d as u128;
        if d > 1 && (x as u128 * mult) >> 64 != 0 { c.tag("fastdiv_product_ge_2pow64"); }
        let fd = crate::ctx::nopanic("FastDivision::new", || FastDivision::new(d))?;
        c.ev(2);
        let q = match catch(|| fd.divide(x)) { Ok(q) => q, Err(p) => return Err(bad("fastdiv_panic", format!("FastDivision::new({d}).divide({x}) panicked at {}: {}", p.loc, p.msg))) };
        crate::ensure!(q == x / d, "fastdiv_mismatch", "FastDivision::new({d}).divide({x})={q} want {}", x / d);
        let m = match catch(|| fd.modulo(x)) { Ok(m) => m, Err(p) => return Err(bad("fastdiv_panic", format!("FastDivision::new({d}).modulo({x}) panicked at {}: {}", p.loc, p.msg))) };
        crate::ensure!(m == x % d, "fastdiv_mismatch", "FastDivision::new({d}).modulo({x})={m} want {}", x % d);
    }
    Ok(())
}
/// rANS table invariant behind losslessness: the slots of all symbols sum to total_freq() and every present symbol owns >= 1.
fn t_rans_table<P: rans::ParallelVariant>(c: &mut Case, i: &Inp) -> Res {
    let fr = i.freqs.unwrap_or_else(|| count(&i.train));
    let Some(e) = enc(c, "Rans64Encoder::new", || Rans64Encoder::<P>::new(&fr))? else { return Ok(()) };
    c.set_nontrivial(true); c.ev(2);
    let sum: u64 = (0..256).map(|s| e.get_symbol(s as u8).freq as u64).sum(); let tf = e.total_freq() as u64;
    crate::ensure!(sum == tf, "rans_slots_ne_total_freq", "sum of symbol slots = {sum}, total_freq() = {tf}");
    if let Some(s) = (0..256).find(|&s| fr[s] > 0 && e.get_symbol(s as u8).freq == 0) { return crate::ctx::fail("rans_present_symbol_without_slot", format!("symbol {s} has count {} but 0 slots", fr[s])); }
    let mut start = 0u64; for s in 0..256 { let y = e.get_symbol(s as u8); if y.freq > 0 { crate::ensure!(y.start as u64 == start, "rans_slots_overlap", "symbol {s}: start={} want {start}", y.start); start += y.freq as u64; } }
    Ok(())
}
fn t_simd_new(c: &mut Case, i: &Inp) -> Res {
    let Some(e) = enc(c, "SimdHuffmanEncoder::new", || SimdHuffmanEncoder::new(&i.train))? else { return Ok(()) };
    c.note(&format!("tier:{:?}", e.tier()), 1); codelen_note(c, e.tree().max_code_length());
    let Some(z) = enc(c, "SimdHuffmanEncoder::encode", || e.encode(&i.data))? else { return Ok(()) };
    encoded(c, i);
    let d = HuffmanDecoder::new(e.tree().clone());
    dec(c, "HuffmanDecoder::decode(simd output)", &i.data, || d.decode(&z, i.data.len()))
}

/// small payload loop for the gap families: every byte kind, `per` cases each; trained => training data drawn by mode idx % 4
fn gap_drive(ctx: &mut Ctx, target: &str, fam: &str, per: usize, trained: bool, maxlen: usize, body: &dyn Fn(&mut Case, &Inp) -> Res) {
    if !ctx.wants(target) { return; }
    for kind in 0..gen::BYTE_KINDS { for idx in 0..per as u64 {
        let g = format!("{fam}/{}", gen::byte_kind_name(kind));
        ctx.case(target, &g, idx, |c| {
            let len = gen::pick_len(&mut c.rng, maxlen); let data = gen::bytes_kind(&mut c.rng, kind, len);
            let mode = if trained { (idx as usize + kind as usize) % 4 } else { 0 }; let train = gen_train(c, mode, &data);
            let i = Inp { data, train, freqs: None, kind }; record(c, gen::byte_kind_name(kind), MODES[mode], &i); body(c, &i) });
    } }
}
fn gap_cases(ctx: &mut Ctx) {
    for which in ["hw", "sw", "mixed"] {
        let t = format!("bitops/{which}");
        if ctx.wants(&t) {
            for idx in 0..ctx.n(40, 400) as u64 { ctx.case(&t, "gap_field_roundtrip", idx, |c| t_bitops_roundtrip(c, which)); }
            for idx in 0..ctx.n(8, 120) as u64 { ctx.case(&t, "gap_packbits_edge", idx, |c| t_packbits_edge(c, which)); }
        }
    }
    let n = ctx.n(6, 60);
    gap_drive(ctx, "dict/serde", "gap_saveload", n, true, 1500, &|c, i| t_dict_serde(c, i));
    gap_drive(ctx, "fse/reset", "gap_reset", n, true, 4097, &|c, i| t_fse_reset(c, i));
    gap_drive(ctx, "fse/table", "gap_accel", ctx.n(3, 30), false, 4097, &|c, i| t_fse_table(c, i));
    if ctx.wants("fse/fastdiv") { for idx in 0..ctx.n(16, 200) as u64 { ctx.case("fse/fastdiv", "gap_fastdiv", idx, |c| t_fastdiv(c)); } }
    gap_drive(ctx, "rans/x1", "gap_table", n, true, 4097, &|c, i| t_rans_table::<ParallelX1>(c, i));
    gap_drive(ctx, "rans/x4", "gap_table", ctx.n(3, 30), true, 4097, &|c, i| t_rans_table::<ParallelX4>(c, i));
    if ctx.wants("rans/x1") { for idx in 0..ctx.n(40, 400) as u64 { ctx.case("rans/x1", "gap_table_fibfreq", idx, |c| {
        let d = 1 + (idx as usize % 40); let (f, syms) = fib_freqs(c, d); let data: Vec<u8> = syms.clone();
        let i = Inp { data, train: vec![], freqs: Some(f), kind: 98 }; record(c, &format!("fibfreq_d{d}"), "table", &i); t_rans_table::<ParallelX1>(c, &i) }); } }
    gap_drive(ctx, "simdhuff/new", "gap_default_cfg", n, true, 4097, &|c, i| t_simd_new(c, i));
}
