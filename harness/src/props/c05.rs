//! C05 — a trie is exactly the set of keys inserted and not removed.
//! Oracle: `BTreeSet<Vec<u8>>`. Every history is generated up-front from the case PRNG (so the tags are pure
//! functions of the input), then replayed against the implementation and the model side by side: return values and
//! `len` after every op, the full observable state (contains / near misses / keys / keys_with_prefix / iter_* /
//! accepts / longest_prefix / re-insert no-op) at the `Full` checkpoints.
//! A case keeps running after the first violated oracle (the model is the truth) so that independent oracle classes
//! of one target are all seen; the verdict carries the FIRST violated class, the others go to `notes["viol:<class>"]`.
use crate::ctx::{Case, Ctx, Fail, Res};
use crate::gen;
use crate::rng::Rng;
use std::collections::BTreeSet;
use zipora::concurrency::{ParallelLoudsTrie, ParallelTrieBuilder};
use zipora::fsa::simple_implementations::SimpleDawg;
use zipora::fsa::{
    BitVectorType, CompressedSparseTrie, CompressionStrategy, ConcurrencyLevel, DawgConfig, DoubleArrayTrie, DoubleArrayTrieBuilder,
    DoubleArrayTrieConfig, FiniteStateAutomaton, NestedLoudsTrie, NestedTrieDawg, NestingConfig, PatriciaTrie, CritBitTrie, PrefixIterable,
    RankSelectType, StorageStrategy, Trie, TrieStrategy, ZiporaTrie, ZiporaTrieConfig,
};
use zipora::memory::{SecureMemoryPool, SecurePoolConfig};
use zipora::succinct::RankSelectInterleaved256;

type Key = Vec<u8>;
type Set = BTreeSet<Key>;

// ---------------------------------------------------------------------------------------------------------------
// system under test abstraction
// ---------------------------------------------------------------------------------------------------------------
trait Sut {
    /// `alt` selects the second public path to the same operation where the type has two (inherent vs trait method).
    fn insert(&mut self, k: &[u8], alt: bool) -> Result<(), String>;
    fn remove(&mut self, _k: &[u8]) -> Option<Result<bool, String>> { None }
    fn contains(&self, k: &[u8]) -> bool;
    fn contains_alt(&self, _k: &[u8]) -> Option<bool> { None }
    fn len(&self) -> usize;
    fn is_empty(&self) -> Option<bool> { None }
    fn keys(&self) -> Option<Vec<Key>> { None }
    fn keys_with_prefix(&self, _p: &[u8]) -> Option<Vec<Key>> { None }
    fn iter_all(&self) -> Option<Vec<Key>> { None }
    fn iter_prefix(&self, _p: &[u8]) -> Option<Vec<Key>> { None }
    fn accepts(&self, _k: &[u8]) -> Option<bool> { None }
    fn longest_prefix(&self, _q: &[u8]) -> Option<Option<usize>> { None }
    fn finish(&self, _c: &mut Case) {}
    // --- ext_* families (see the end of the file)
    fn insert_id(&mut self, _k: &[u8]) -> Option<Result<u32, String>> { None }
    fn lookup_id(&self, _k: &[u8]) -> Option<Option<u32>> { None }
    fn shrink(&mut self) -> bool { false }
    fn ext(&self, _c: &mut Case, _mon: &mut Mon, _m: &Set, _probes: &[Key], _kind: Ext) {}
}

struct Zt(ZiporaTrie);
impl Sut for Zt {
    fn insert(&mut self, k: &[u8], alt: bool) -> Result<(), String> {
        if alt { Trie::insert(&mut self.0, k).map(|_| ()).map_err(|e| e.to_string()) } else { ZiporaTrie::insert(&mut self.0, k).map_err(|e| e.to_string()) }
    }
    fn remove(&mut self, k: &[u8]) -> Option<Result<bool, String>> { Some(self.0.remove(k).map_err(|e| e.to_string())) }
    fn contains(&self, k: &[u8]) -> bool { ZiporaTrie::contains(&self.0, k) }
    fn contains_alt(&self, k: &[u8]) -> Option<bool> { Some(Trie::contains(&self.0, k)) }
    fn len(&self) -> usize { ZiporaTrie::len(&self.0) }
    fn is_empty(&self) -> Option<bool> { Some(ZiporaTrie::is_empty(&self.0)) }
    fn keys(&self) -> Option<Vec<Key>> { Some(self.0.keys()) }
    fn keys_with_prefix(&self, p: &[u8]) -> Option<Vec<Key>> { Some(self.0.keys_with_prefix(p)) }
    fn iter_all(&self) -> Option<Vec<Key>> { Some(ZiporaTrie::iter_all(&self.0).collect()) }
    fn iter_prefix(&self, p: &[u8]) -> Option<Vec<Key>> { Some(PrefixIterable::iter_prefix(&self.0, p).collect()) }
    fn accepts(&self, k: &[u8]) -> Option<bool> { Some(FiniteStateAutomaton::accepts(&self.0, k)) }
    fn longest_prefix(&self, q: &[u8]) -> Option<Option<usize>> { Some(FiniteStateAutomaton::longest_prefix(&self.0, q)) }
    fn finish(&self, c: &mut Case) {
        // branch coverage visible through the public API: the double-array root was relocated iff its base moved off 1
        if let TrieStrategy::DoubleArray { .. } = self.0.config().trie_strategy { if self.0.get_base_double_array(0) != 1 { c.note("da_root_relocated", 1); } c.note("da_states", self.0.state_count() as u64); }
    }
    fn insert_id(&mut self, k: &[u8]) -> Option<Result<u32, String>> { Some(self.0.insert_and_get_node_id(k).map_err(|e| e.to_string())) }
    fn lookup_id(&self, k: &[u8]) -> Option<Option<u32>> { Some(self.0.lookup_node_id(k)) }
    fn shrink(&mut self) -> bool { self.0.shrink_to_fit(); true }
    fn ext(&self, c: &mut Case, mon: &mut Mon, m: &Set, probes: &[Key], kind: Ext) { zt_ext(&self.0, c, mon, m, probes, kind) }
}

macro_rules! wrapper_sut {
    ($name:ident, $ty:ty) => { wrapper_sut!($name, $ty, {}); };
    ($name:ident, $ty:ty, { $($extra:tt)* }) => {
        struct $name($ty);
        impl Sut for $name {
            fn insert(&mut self, k: &[u8], alt: bool) -> Result<(), String> {
                if alt { Trie::insert(&mut self.0, k).map(|_| ()).map_err(|e| e.to_string()) } else { <$ty>::insert(&mut self.0, k).map_err(|e| e.to_string()) }
            }
            fn contains(&self, k: &[u8]) -> bool { <$ty>::contains(&self.0, k) }
            fn contains_alt(&self, k: &[u8]) -> Option<bool> { let c0 = <$ty>::contains(&self.0, k); let a = Trie::contains(&self.0, k); let b = <$ty>::lookup(&self.0, k).is_some(); Some(if a == c0 && b == c0 { c0 } else { !c0 }) }
            fn len(&self) -> usize { <$ty>::len(&self.0) }
            fn is_empty(&self) -> Option<bool> { Some(<$ty>::is_empty(&self.0)) }
            fn accepts(&self, k: &[u8]) -> Option<bool> { Some(FiniteStateAutomaton::accepts(&self.0, k)) }
            fn longest_prefix(&self, q: &[u8]) -> Option<Option<usize>> { Some(FiniteStateAutomaton::longest_prefix(&self.0, q)) }
            $($extra)*
        }
    };
}
wrapper_sut!(Dat, DoubleArrayTrie, {
    fn shrink(&mut self) -> bool { self.0.shrink_to_fit(); true }
    fn ext(&self, c: &mut Case, mon: &mut Mon, m: &Set, probes: &[Key], kind: Ext) { dat_ext(&self.0, c, mon, m, probes, kind) }
});
wrapper_sut!(Nlt, NestedLoudsTrie<RankSelectInterleaved256>, {
    fn ext(&self, c: &mut Case, mon: &mut Mon, m: &Set, _probes: &[Key], kind: Ext) { nlt_ext(&self.0, c, mon, m, kind) }
});
wrapper_sut!(Cst, CompressedSparseTrie, {
    fn ext(&self, c: &mut Case, mon: &mut Mon, m: &Set, _probes: &[Key], kind: Ext) { if kind == Ext::Stats { let n = self.0.stats().num_keys; mon.chk(c, n == m.len(), "stats_num_keys", || format!("CompressedSparseTrie::stats().num_keys={n}, model has {}", m.len())); } }
});

struct Dawg(NestedTrieDawg);
impl Sut for Dawg {
    fn insert(&mut self, k: &[u8], _alt: bool) -> Result<(), String> { Trie::insert(&mut self.0, k).map(|_| ()).map_err(|e| e.to_string()) }
    fn contains(&self, k: &[u8]) -> bool { Trie::contains(&self.0, k) }
    fn contains_alt(&self, k: &[u8]) -> Option<bool> { Some(Trie::lookup(&self.0, k).is_some()) }
    fn len(&self) -> usize { Trie::len(&self.0) }
    fn is_empty(&self) -> Option<bool> { Some(Trie::is_empty(&self.0)) }
    fn accepts(&self, k: &[u8]) -> Option<bool> { Some(self.0.accepts(k)) }
    fn longest_prefix(&self, q: &[u8]) -> Option<Option<usize>> { Some(self.0.longest_prefix(q)) }
    fn finish(&self, c: &mut Case) { c.note("dawg_states", self.0.statistics().num_states as u64); }
}

struct Sd(SimpleDawg);
impl Sut for Sd {
    fn insert(&mut self, k: &[u8], _alt: bool) -> Result<(), String> { self.0.insert(k).map_err(|e| e.to_string()) }
    fn contains(&self, k: &[u8]) -> bool { self.0.contains(k) }
    fn len(&self) -> usize { self.0.num_keys() }
}

struct Par { rt: tokio::runtime::Runtime, t: ParallelLoudsTrie }
impl Sut for Par {
    fn insert(&mut self, k: &[u8], alt: bool) -> Result<(), String> {
        if alt { self.rt.block_on(self.t.bulk_insert(vec![k.to_vec()])).map(|_| ()).map_err(|e| e.to_string()) } else { self.rt.block_on(self.t.insert(k)).map(|_| ()).map_err(|e| e.to_string()) }
    }
    fn contains(&self, k: &[u8]) -> bool { self.rt.block_on(self.t.contains(k)) }
    fn contains_alt(&self, k: &[u8]) -> Option<bool> { Some(self.rt.block_on(self.t.parallel_contains(vec![k.to_vec()]))[0]) }
    fn len(&self) -> usize { self.rt.block_on(self.t.len()) }
    fn is_empty(&self) -> Option<bool> { Some(self.rt.block_on(self.t.is_empty())) }
    fn keys_with_prefix(&self, p: &[u8]) -> Option<Vec<Key>> { self.rt.block_on(self.t.parallel_prefix_search(vec![p.to_vec()])).into_iter().next() }
}

// ---------------------------------------------------------------------------------------------------------------
// history generation (input only)
// ---------------------------------------------------------------------------------------------------------------
#[derive(Clone, Debug)]
enum Op { Ins(Key, bool), Rem(Key), Has(Key), Full }

pub const FAMS: u32 = 12;
fn fam_name(f: u32) -> &'static str { ["abc_short", "bytes_00ff", "ab_long", "random8", "alpha26", "xy_200_400", "prefix_chain", "fanout256", "limits", "dense", "mixed", "shared_suffix"][(f % FAMS) as usize] }
const LIMIT_LENS: &[usize] = &[15, 16, 17, 31, 32, 33, 63, 64, 65, 127, 128, 129, 254, 255, 256, 257, 300];

fn alpha(r: &mut Rng) -> Vec<u8> {
    match r.below(5) { 0 => vec![b'a', b'b'], 1 => vec![0x00, 0xff], 2 => vec![0x00, 0x01, 0xfe, 0xff], 3 => (b'a'..=b'z').collect(), _ => (0..=255u8).collect() }
}
fn word(r: &mut Rng, a: &[u8], len: usize) -> Key { (0..len).map(|_| *r.pick(a)).collect() }

/// A pool of candidate keys of one family. `cheap` caps lengths (targets that copy the whole trie per op).
fn key_pool(r: &mut Rng, fam: u32, cheap: bool) -> Vec<Key> {
    let mut p: Vec<Key> = Vec::new();
    match fam % FAMS {
        f @ 0..=4 => { let n = r.urange(3, 60); for _ in 0..n { p.push(gen::key(r, f)); } }
        5 => { let n = r.urange(2, if cheap { 4 } else { 14 }); for _ in 0..n { let mut k = gen::key(r, 5); if cheap { k.truncate(40); } p.push(k); } }
        6 => { // every key a prefix of one base string (+ a few siblings branching off it)
            let a = alpha(r); let l = r.urange(3, if cheap { 16 } else { 48 }); let base = word(r, &a, l);
            let n = r.urange(3, 40); for _ in 0..n { let cut = r.usize_below(l + 1); let mut k = base[..cut].to_vec(); if r.chance(1, 5) { k.push(*r.pick(&a)); } p.push(k); }
            p.push(Vec::new()); p.push(base);
        }
        7 => { // wide fan-out below a short prefix: every byte value as a child, two levels
            let pl = r.usize_below(3); let pre = word(r, &[0u8, b'a', 0xff, 0x80], pl); let n = *r.pick(&[8usize, 40, 130, 256]);
            let mut bytes: Vec<u8> = (0..=255u8).collect(); r.shuffle(&mut bytes);
            for &b in bytes.iter().take(n) { let mut k = pre.clone(); k.push(b); if r.chance(1, 4) { k.push(r.next() as u8); } if r.chance(1, 10) { k.push(r.next() as u8); } p.push(k); }
            if r.bool() { p.push(pre); }
            if cheap { p.truncate(24); }
        }
        8 => { // lengths around the path-compression / length-prefix limits, diverging right at the limit
            let a = alpha(r); let lens: &[usize] = if cheap { &LIMIT_LENS[..6] } else { LIMIT_LENS };
            let l = *r.pick(lens); let base = word(r, &a, l); let n = r.urange(3, if cheap { 6 } else { 14 });
            p.push(base.clone());
            for _ in 0..n { let mut k = base.clone(); match r.below(5) {
                0 => { k.pop(); } 1 => { k.push(*r.pick(&a)); }
                2 => { let i = l - 1 - r.usize_below(3.min(l)); k[i] = k[i].wrapping_add(1 + r.below(3) as u8); }
                3 => { let i = r.usize_below(l); k[i] ^= 1; k.truncate(i + 1 + r.usize_below(l - i)); }
                _ => { let l2 = *r.pick(lens); k.truncate(l2.min(l)); while k.len() < l2 { k.push(*r.pick(&a)); } } }
                p.push(k); }
        }
        9 => { // the complete tree over a 2-letter alphabet up to depth 3 or 4: small universe, heavy churn
            let a: [u8; 2] = *r.pick(&[[b'a', b'b'], [0x00, 0xff], [0x00, 0x01], [0x7f, 0x80]]); let d = r.urange(2, 4);
            p.push(Vec::new()); let mut i = 0; while i < p.len() { if p[i].len() < d { for &b in &a { let mut k = p[i].clone(); k.push(b); p.push(k); } } i += 1; }
            if cheap { r.shuffle(&mut p); p.truncate(16); }
        }
        10 => { let n = r.urange(4, 50); for _ in 0..n { let f = r.below(5) as u32; p.push(gen::key(r, f)); } if !cheap { p.push(gen::key(r, 5)); } p.push(Vec::new()); }
        _ => { // prefixes x suffixes (+ tails): distinct keys ending in identical suffixes - what a DAWG merges, and what collides in a double array
            let a = alpha(r); let (np, ns) = (r.urange(2, 5), r.urange(1, 4));
            let pre: Vec<Key> = (0..np).map(|_| { let l = r.usize_below(4); word(r, &a, l) }).collect();
            let suf: Vec<Key> = (0..ns).map(|_| { let l = r.urange(1, 4); word(r, &a, l) }).collect();
            let tails: Vec<Key> = (0..2).map(|_| { let l = r.urange(1, 2); word(r, &a, l) }).collect();
            for x in &pre { for y in &suf { let mut k = x.clone(); k.extend_from_slice(y); p.push(k.clone()); for t in &tails { if r.bool() { let mut e = k.clone(); e.extend_from_slice(t); p.push(e); } } } }
        }
    }
    if cheap { for k in p.iter_mut() { k.truncate(40); } }
    p
}

/// A key close to `k`: proper prefix, one-byte extension, one-byte change.
fn near(r: &mut Rng, k: &[u8]) -> Key {
    let mut v = k.to_vec();
    match r.below(6) {
        4 if !v.is_empty() => { v.remove(0); }
        5 if !v.is_empty() => { let b = v[0]; v.insert(0, b); }
        0 if !v.is_empty() => { let c = r.usize_below(v.len()); v.truncate(c); }
        1 if !v.is_empty() => { let i = r.usize_below(v.len()); v[i] = match r.below(4) { 0 => v[i] ^ 1, 1 => v[i].wrapping_add(1), 2 => 0, _ => 0xff }; }
        2 if !v.is_empty() => { v.pop(); v.push(r.next() as u8); }
        _ => { let b = match r.below(4) { 0 => 0, 1 => 0xff, 2 => *v.last().unwrap_or(&b'a'), _ => r.next() as u8 }; v.push(b); }
    }
    v
}

/// `obs`: which optional observers are compared in this case (0 all, 1 automaton view only, 2 enumeration only) - chosen from the PRNG so that
/// independent oracle classes of one target each get to be the first violated class in some cases.
struct Plan { fam: u32, init: Vec<Key>, ops: Vec<Op>, pool: Vec<Key>, obs: u8 }

#[derive(Clone, Copy)]
struct Shape { with_remove: bool, with_insert: bool, init: u8 /* 0 none, 1 sorted unique, 2 unsorted with duplicates */, cheap: bool, nodup: bool /* never insert a present key, no re-insert check */ }

fn plan(r: &mut Rng, fam: u32, sh: Shape) -> Plan {
    let pool = key_pool(r, fam, sh.cheap);
    let heavy = matches!(fam % FAMS, 5 | 8);
    let nops = if sh.cheap { r.urange(20, 60) } else if heavy { r.urange(40, 110) } else if r.chance(3, 4) { r.urange(40, 140) } else { r.urange(140, 400) };
    let mut init: Vec<Key> = Vec::new();
    if sh.init != 0 { let n = r.urange(0, pool.len()); for _ in 0..n { init.push(r.pick(&pool).clone()); }
        if sh.init == 1 { init.sort(); init.dedup(); } }
    let (pi, pr) = if !sh.with_insert { (0, 0) } else if sh.with_remove { *r.pick(&[(55u64, 25u64), (45, 40), (70, 10)]) } else { (75, 0) };
    let period = r.urange(8, 50); let mut ops = Vec::with_capacity(nops + nops / period + 2);
    let mut sim: Set = init.iter().cloned().collect();
    for i in 0..nops {
        let base = r.pick(&pool).clone();
        let k = if r.chance(6, 7) { base } else { near(r, &base) };
        let x = r.below(100); let alt = r.bool();
        ops.push(if x < pi { if sh.nodup && sim.contains(&k) { Op::Has(k) } else { sim.insert(k.clone()); Op::Ins(k, alt) } } else if x < pi + pr { sim.remove(&k); Op::Rem(k) } else { Op::Has(k) });
        if i % period == period - 1 { ops.push(Op::Full); }
    }
    ops.push(Op::Full);
    let obs = match r.below(4) { 0 => 1, 1 => 2, _ => 0 };
    Plan { fam, init, ops, pool, obs }
}

/// Record the plan as the case input and derive the input-only tags by replaying it on the model alone.
fn record(c: &mut Case, cfg: &str, p: &Plan, sh: Shape) {
    c.input_str("cfg", cfg); c.input_str("fam", fam_name(p.fam)); c.input_str("observers", ["all", "automaton", "enumeration"][p.obs as usize]);
    let mut enc: Vec<u8> = Vec::new();
    let put = |enc: &mut Vec<u8>, t: u8, k: &[u8]| { enc.push(t); enc.extend_from_slice(&(k.len() as u16).to_le_bytes()); enc.extend_from_slice(k); };
    for k in &p.init { put(&mut enc, b'B', k); }
    let mut m: Set = p.init.iter().cloned().collect();
    let (mut ins_new, mut ins_dup, mut rem_hit, mut rem_miss, mut fulls_nonempty) = (0u64, 0u64, 0u64, 0u64, 0u64);
    let (mut maxlen, mut has00, mut empty_key) = (0usize, false, false); let mut minlen = usize::MAX;
    for k in &p.init { minlen = minlen.min(k.len()); maxlen = maxlen.max(k.len()); has00 |= k.contains(&0); empty_key |= k.is_empty(); }
    if p.init.len() != m.len() { ins_dup += 1; }
    for op in &p.ops { match op {
        Op::Ins(k, alt) => { put(&mut enc, if *alt { b'I' } else { b'i' }, k); minlen = minlen.min(k.len()); maxlen = maxlen.max(k.len()); has00 |= k.contains(&0); empty_key |= k.is_empty(); if m.insert(k.clone()) { ins_new += 1 } else { ins_dup += 1 } }
        Op::Rem(k) => { put(&mut enc, b'r', k); if m.remove(k) { rem_hit += 1 } else { rem_miss += 1 } }
        Op::Has(k) => put(&mut enc, b'h', k),
        Op::Full => { enc.push(b'F'); if !m.is_empty() { fulls_nonempty += 1; } } } }
    c.input("history", &enc);
    c.note("plan_ins_new", ins_new); c.note("plan_ins_dup", ins_dup); c.note("plan_rem_hit", rem_hit); c.note("plan_rem_miss", rem_miss);
    let any_key = ins_new > 0 || !p.init.is_empty();
    if any_key { c.tag("nonempty"); }
    if rem_hit > 0 { c.tag("remove_present"); }
    if ins_dup > 0 || (sh.with_insert && !sh.nodup && fulls_nonempty > 0) { c.tag("reinsert"); }
    if ins_new + ins_dup > 0 { c.tag("any_insert"); }
    if sh.init != 0 && !p.init.is_empty() && ins_new > 0 { c.tag("insert_new_after_build"); }
    if maxlen > 255 { c.tag("key_gt_255"); }
    if minlen <= 255 { c.tag("key_le_255"); }
    if has00 { c.tag("key_has_00"); }
    if empty_key { c.tag("empty_key"); }
    c.set_nontrivial(ins_new + p.init.len() as u64 >= 2);
}

// ---------------------------------------------------------------------------------------------------------------
// monitor
// ---------------------------------------------------------------------------------------------------------------
struct Mon { fails: Vec<(String, String)>, step: usize, opdesc: String }
impl Mon {
    fn chk(&mut self, c: &mut Case, ok: bool, class: &str, detail: impl FnOnce() -> String) {
        c.ev(1);
        if !ok && !self.fails.iter().any(|f| f.0 == class) { let d = format!("step {} [{}]: {}", self.step, self.opdesc, detail()); c.log(format!("VIOLATION {class}: {d}")); self.fails.push((class.to_string(), d)); }
    }
    fn done(self, c: &mut Case) -> Res {
        for f in &self.fails { c.note(&format!("viol:{}", f.0), 1); }
        match self.fails.first() { None => Ok(()), Some(f) => { let also: Vec<&str> = self.fails.iter().skip(1).map(|x| x.0.as_str()).collect(); Err(Fail { oracle: f.0.clone(), detail: format!("{} | also violated: {:?}", f.1, also) }) } }
    }
}
fn hx(k: &[u8]) -> String { if k.len() <= 24 { format!("{}({})", gen::hex(k), k.len()) } else { format!("{}..{}({})", gen::hex(&k[..12]), gen::hex(&k[k.len() - 4..]), k.len()) } }
fn hxs(ks: &[Key]) -> String { let v: Vec<String> = ks.iter().take(6).map(|k| hx(k)).collect(); format!("[{}{}]", v.join(","), if ks.len() > 6 { format!(",..{} total", ks.len()) } else { String::new() }) }
fn with_prefix(m: &Set, p: &[u8]) -> Vec<Key> { m.range(p.to_vec()..).take_while(|k| k.starts_with(p)).cloned().collect() }
fn lp(m: &Set, q: &[u8]) -> Option<usize> { (0..=q.len()).rev().find(|&l| m.contains(&q[..l])) }
fn cmp_list(mon: &mut Mon, c: &mut Case, class: &str, what: &str, mut got: Vec<Key>, want: &[Key]) {
    got.sort();
    if got.as_slice() == want { mon.chk(c, true, class, String::new); return; }
    let gs: Set = got.iter().cloned().collect(); let ws: Set = want.iter().cloned().collect();
    let missing: Vec<Key> = ws.difference(&gs).cloned().collect(); let extra: Vec<Key> = gs.difference(&ws).cloned().collect();
    let class2 = if missing.is_empty() && extra.is_empty() { format!("{class}_dup") } else { class.to_string() };
    mon.chk(c, false, &class2, || format!("{what}: {} returned, {} expected; missing {} extra {}", got.len(), want.len(), hxs(&missing), hxs(&extra)));
}

fn probe_keys(r: &mut Rng, m: &Set, pool: &[Key]) -> (Vec<Key>, Vec<Key>) {
    let all: Vec<&Key> = m.iter().collect();
    let members: Vec<Key> = if all.len() <= 300 { all.iter().map(|k| (*k).clone()).collect() } else { (0..300).map(|_| (*r.pick(&all)).clone()).collect() };
    let mut nm: Vec<Key> = Vec::new();
    let sample: Vec<Key> = if members.len() <= 20 { members.clone() } else { (0..20).map(|_| r.pick(&members).clone()).collect() };
    for k in sample {
        if k.len() > 4096 { nm.push(k[..k.len() - 1].to_vec()); let mut e = k.clone(); e.push(r.next() as u8); nm.push(e); nm.push(near(r, &k)); continue; }     // every probe of such a key walks > 4096 nodes
        if k.len() <= 10 { for l in 0..k.len() { nm.push(k[..l].to_vec()); } } else { for l in [0, 1, k.len() / 2, k.len() - 1] { nm.push(k[..l].to_vec()); } }
        for b in [0u8, 0xff, *k.last().unwrap_or(&b'a'), r.next() as u8] { let mut e = k.clone(); e.push(b); nm.push(e); }
        if !k.is_empty() { nm.push(k[1..].to_vec()); let mut d = k.clone(); d.insert(0, k[0]); nm.push(d); }
        for _ in 0..3 { nm.push(near(r, &k)); } }
    for _ in 0..6 { if !pool.is_empty() { nm.push(r.pick(pool).clone()); } }
    nm.push(Vec::new()); nm.push(vec![0]); nm.push(vec![0xff]);
    nm.sort(); nm.dedup();
    (members, nm)
}

fn full_check(c: &mut Case, mon: &mut Mon, s: &mut dyn Sut, m: &Set, pool: &[Key], reinsert: bool, obs: u8) {
    let (fsa, en) = (obs != 2, obs != 1);
    c.note("full_checks", 1);
    let mut r = c.rng.fork();
    let want: Vec<Key> = m.iter().cloned().collect();
    let n = s.len(); mon.chk(c, n == m.len(), "len", || format!("len()={n}, model has {}", m.len()));
    if let Some(e) = s.is_empty() { mon.chk(c, e == m.is_empty(), "is_empty", || format!("is_empty()={e}, model has {}", m.len())); }
    let (members, nm) = probe_keys(&mut r, m, pool);
    for k in &members {
        let got = s.contains(k); mon.chk(c, got, "lost_key", || format!("contains({}) = false for a member (|set|={})", hx(k), m.len()));
        if let Some(a) = s.contains_alt(k) { mon.chk(c, a == got, "contains_paths_disagree", || format!("second contains path gives {a}, first {got} for {}", hx(k))); }
        if fsa { if let Some(a) = s.accepts(k) { mon.chk(c, a == got, "accepts_ne_contains", || format!("accepts({})={a} but contains={got} (member)", hx(k))); } }
    }
    for k in &nm {
        let is_m = m.contains(k); let got = s.contains(k);
        mon.chk(c, got == is_m, if is_m { "lost_key" } else { "phantom_key" }, || format!("contains({}) = {got}, member={is_m} (|set|={})", hx(k), m.len()));
        if let Some(a) = s.contains_alt(k) { mon.chk(c, a == got, "contains_paths_disagree", || format!("second contains path gives {a}, first {got} for {}", hx(k))); }
        if fsa { if let Some(a) = s.accepts(k) { mon.chk(c, a == got, "accepts_ne_contains", || format!("accepts({})={a} but contains={got} (member={is_m})", hx(k))); } }
    }
    if en { if let Some(ks) = s.keys() { cmp_list(mon, c, "keys", "keys()", ks, &want); } }
    if en { if let Some(ks) = s.iter_all() { cmp_list(mon, c, "iter_all", "iter_all()", ks, &want); } }
    // prefixes: empty, prefixes of members, members, extensions, near misses
    let mut ps: Vec<Key> = vec![Vec::new()];
    for _ in 0..members.len().min(5) { let k = r.pick(&members).clone(); if !k.is_empty() { ps.push(k[..1].to_vec()); ps.push(k[..(k.len() + 1) / 2].to_vec()); } let mut e = k.clone(); e.push(0); ps.push(k); ps.push(e); }
    for _ in 0..3 { ps.push(r.pick(&nm).clone()); }
    ps.push(vec![r.next() as u8]); ps.sort(); ps.dedup();
    for p in &ps {
        if !en { break; }
        let w = with_prefix(m, p);
        if let Some(ks) = s.keys_with_prefix(p) { cmp_list(mon, c, "keys_with_prefix", &format!("keys_with_prefix({})", hx(p)), ks, &w); }
        if let Some(ks) = s.iter_prefix(p) { cmp_list(mon, c, "iter_prefix", &format!("iter_prefix({})", hx(p)), ks, &w); }
    }
    // longest_prefix: members, members + tail, near misses
    let mut qs: Vec<Key> = vec![Vec::new()];
    for _ in 0..members.len().min(12) { let k = r.pick(&members).clone(); let mut e = k.clone(); for _ in 0..r.urange(1, 3) { e.push(if r.bool() { *k.last().unwrap_or(&0) } else { r.next() as u8 }); } qs.push(k); qs.push(e); }
    for _ in 0..12 { qs.push(r.pick(&nm).clone()); }
    qs.sort(); qs.dedup();
    for q in &qs { if !fsa { break; } if let Some(g) = s.longest_prefix(q) { let w = lp(m, q); mon.chk(c, g == w, "longest_prefix", || format!("longest_prefix({}) = {g:?}, longest member prefix = {w:?} (|set|={})", hx(q), m.len())); } }
    // re-inserting an existing key changes nothing
    if reinsert && !members.is_empty() {
        for alt in [false, true] { let k = r.pick(&members).clone(); let before = s.len();
            match s.insert(&k, alt) { Ok(()) => { let after = s.len(); mon.chk(c, after == before, "reinsert_len", || format!("re-insert of member {} changed len {before} -> {after}", hx(&k)));
                    let h = s.contains(&k); mon.chk(c, h, "lost_key", || format!("member {} not contained after its re-insert", hx(&k))); }
                Err(e) => mon.chk(c, false, "reinsert_err", || format!("re-insert of member {} failed: {e}", hx(&k))) } }
    }
}

fn replay(c: &mut Case, s: &mut dyn Sut, p: &Plan, sh: Shape) -> Res {
    let mut m: Set = p.init.iter().cloned().collect();
    let mut mon = Mon { fails: vec![], step: 0, opdesc: "after build".into() }; let mut ok_new = m.len();
    if sh.init != 0 { full_check(c, &mut mon, s, &m, &p.pool, false, p.obs); }
    for (i, op) in p.ops.iter().enumerate() {
        mon.step = i; if mon.fails.len() >= 8 { break; }
        match op {
            Op::Ins(k, alt) => {
                mon.opdesc = format!("insert{} {}", if *alt { "(trait)" } else { "" }, hx(k)); c.log(&mon.opdesc);
                let was = m.contains(k); let before = s.len();
                match s.insert(k, *alt) {
                    Ok(()) => { if m.insert(k.clone()) { ok_new += 1; } c.note("inserts_ok", 1);
                        let h = s.contains(k); mon.chk(c, h, "lost_key", || format!("contains({}) = false right after its insert returned Ok", hx(k)));
                        let n = s.len(); mon.chk(c, n == m.len(), if was { "reinsert_len" } else { "len" }, || format!("len()={n} after insert (was member: {was}, len before {before}), model has {}", m.len())); }
                    Err(e) => { c.note("insert_refused", 1); c.log(format!("insert refused: {e}"));
                        let h = s.contains(k); mon.chk(c, h == was, "refused_insert_changed_set", || format!("insert({}) returned Err({e}) but contains went {was} -> {h}", hx(k)));
                        let n = s.len(); mon.chk(c, n == m.len(), "len", || format!("len()={n} after refused insert, model has {}", m.len())); }
                }
            }
            Op::Rem(k) => {
                mon.opdesc = format!("remove {}", hx(k)); c.log(&mon.opdesc);
                let want = m.remove(k);
                match s.remove(k) { None => {}
                    Some(Err(e)) => mon.chk(c, false, "remove_err", || format!("remove returned Err({e}), member={want}")),
                    Some(Ok(got)) => { c.note(if want { "removes_hit" } else { "removes_miss" }, 1);
                        mon.chk(c, got == want, "remove_ret", || format!("remove({}) returned {got}, key was member: {want}", hx(k)));
                        let h = s.contains(k); mon.chk(c, !h, "remove_ineffective", || format!("contains({}) still true after remove (was member: {want})", hx(k)));
                        let n = s.len(); mon.chk(c, n == m.len(), "len", || format!("len()={n} after remove, model has {}", m.len())); } }
            }
            Op::Has(k) => {
                mon.opdesc = format!("contains {}", hx(k));
                let is_m = m.contains(k); let got = s.contains(k);
                mon.chk(c, got == is_m, if is_m { "lost_key" } else { "phantom_key" }, || format!("contains({}) = {got}, member={is_m} (|set|={})", hx(k), m.len()));
                if p.obs != 2 { if let Some(a) = s.accepts(k) { mon.chk(c, a == got, "accepts_ne_contains", || format!("accepts({})={a} but contains={got}", hx(k))); } }
                if p.obs == 2 {} else if let Some(g) = s.longest_prefix(k) { let w = lp(&m, k); mon.chk(c, g == w, "longest_prefix", || format!("longest_prefix({}) = {g:?}, longest member prefix = {w:?}", hx(k))); }
            }
            Op::Full => { mon.opdesc = format!("full check, |set|={}", m.len()); c.log(&mon.opdesc); full_check(c, &mut mon, s, &m, &p.pool, sh.with_insert && !sh.nodup, p.obs); }
        }
    }
    c.note("final_set_size", m.len() as u64); c.set_nontrivial(ok_new >= 2);     // at least two distinct keys actually went in
    s.finish(c);
    mon.done(c)
}

// ---------------------------------------------------------------------------------------------------------------
// configurations
// ---------------------------------------------------------------------------------------------------------------
fn mk_pool() -> Result<std::sync::Arc<SecureMemoryPool>, Fail> { SecureMemoryPool::new(SecurePoolConfig::small_secure()).map_err(|e| Fail { oracle: "__inconclusive".into(), detail: format!("memory pool: {e}") }) }

fn rs_type(r: &mut Rng) -> RankSelectType { match r.below(6) { 0 => RankSelectType::Interleaved256, 1 => RankSelectType::MixedIL256, 2 => RankSelectType::MixedXL256, 3 => RankSelectType::MixedXLBitPacked, 4 => RankSelectType::Simple, _ => RankSelectType::Adaptive } }

fn hand_config(r: &mut Rng, strat: u32) -> Result<(ZiporaTrieConfig, String), Fail> {
    let trie_strategy = match strat {
        0 => TrieStrategy::Patricia { max_path_length: *r.pick(&[0usize, 1, 2, 8, 64, 1000]), compression_threshold: *r.pick(&[0usize, 1, 4, 100]), adaptive_compression: r.bool() },
        1 => TrieStrategy::CriticalBit { cache_critical_bytes: r.bool(), optimize_for_strings: r.bool(), bit_level_optimization: r.bool() },
        2 => TrieStrategy::DoubleArray { initial_capacity: *r.pick(&[0usize, 1, 2, 256, 4096]), growth_factor: *r.pick(&[1.0f64, 1.5, 2.0]), free_list_management: r.bool(), auto_shrink: r.bool() },
        3 => TrieStrategy::Louds { nesting_levels: *r.pick(&[0usize, 1, 4, 8]), fragment_compression: r.bool(), adaptive_backends: r.bool(), cache_aligned: r.bool() },
        _ => TrieStrategy::CompressedSparse { sparse_threshold: *r.pick(&[0.0f64, 0.3, 1.0]), compression_level: *r.pick(&[0u8, 6, 9]), adaptive_sparse: r.bool() },
    };
    let std_s = |r: &mut Rng| StorageStrategy::Standard { initial_capacity: *r.pick(&[0usize, 1, 64, 1024]), growth_factor: *r.pick(&[1.0f64, 1.5, 2.0]) };
    let cache_s = |r: &mut Rng| StorageStrategy::CacheOptimized { cache_line_size: *r.pick(&[32usize, 64, 128]), numa_aware: r.bool(), prefetch_enabled: r.bool() };
    let (storage_strategy, sname) = match r.below(5) {
        0 => (std_s(r), "Standard"),
        1 => (StorageStrategy::Succinct { bit_vector_type: match r.below(4) { 0 => BitVectorType::Standard, 1 => BitVectorType::RankSelectOptimized, 2 => BitVectorType::CacheAligned, _ => BitVectorType::Compressed }, rank_select_type: rs_type(r), interleaved_layout: r.bool() }, "Succinct"),
        2 => (cache_s(r), "CacheOptimized"),
        3 => (StorageStrategy::PoolAllocated { pool: mk_pool()?, size_class: *r.pick(&[64usize, 1024]), chunk_size: 4096 }, "PoolAllocated"),
        _ => (StorageStrategy::Hybrid { primary: Box::new(std_s(r)), secondary: Box::new(cache_s(r)), switch_threshold: *r.pick(&[0usize, 4, 1000]) }, "Hybrid"),
    };
    let (compression_strategy, cname) = match r.below(5) {
        0 => (CompressionStrategy::None, "None"),
        1 => (CompressionStrategy::PathCompression { min_path_length: *r.pick(&[0usize, 1, 2]), max_path_length: *r.pick(&[1usize, 2, 16, 64]), adaptive_threshold: r.bool() }, "Path"),
        2 => (CompressionStrategy::FragmentCompression { fragment_size: *r.pick(&[1usize, 8]), frequency_threshold: 0.1, dictionary_size: *r.pick(&[1usize, 4096]) }, "Fragment"),
        3 => (CompressionStrategy::Hierarchical { levels: *r.pick(&[1usize, 3]), compression_ratio: 0.7, adaptive_levels: r.bool() }, "Hierarchical"),
        _ => (CompressionStrategy::Adaptive { strategies: vec![CompressionStrategy::None], decision_threshold: 4 }, "Adaptive"),
    };
    let cfg = ZiporaTrieConfig { trie_strategy, storage_strategy, compression_strategy, rank_select_type: rs_type(r), enable_simd: r.bool(), enable_concurrency: r.bool(), cache_optimization: r.bool() };
    let d = format!("{:?} storage={sname} compression={cname} rs={:?} simd={} conc={} cacheopt={}", cfg.trie_strategy, cfg.rank_select_type, cfg.enable_simd, cfg.enable_concurrency, cfg.cache_optimization);
    Ok((cfg, d))
}

fn strategy_name(cfg: &ZiporaTrieConfig) -> &'static str { match cfg.trie_strategy { TrieStrategy::Patricia { .. } => "Patricia", TrieStrategy::CriticalBit { .. } => "CriticalBit", TrieStrategy::DoubleArray { .. } => "DoubleArray", TrieStrategy::Louds { .. } => "Louds", TrieStrategy::CompressedSparse { .. } => "CompressedSparse" } }


// ---------------------------------------------------------------------------------------------------------------
// targets
// ---------------------------------------------------------------------------------------------------------------
/// What a target's public API offers / how its histories are shaped.
#[derive(Clone, Copy)]
struct Tgt { id: &'static str, remove: bool, insert: bool, init: u8, cheap: bool, class: u8 /* 0 ZiporaTrie, 1 alias, 2 wrapper, 3 small, 4 parallel */ }
const fn tg(id: &'static str, remove: bool, insert: bool, init: u8, cheap: bool, class: u8) -> Tgt { Tgt { id, remove, insert, init, cheap, class } }
const TARGETS: &[Tgt] = &[
    tg("zt/default", true, true, 0, false, 0), tg("zt/cache_optimized", true, true, 0, false, 0), tg("zt/space_optimized", true, true, 0, false, 0),
    tg("zt/sparse_optimized", true, true, 0, false, 0), tg("zt/string_specialized", true, true, 0, false, 0), tg("zt/concurrent_hp", true, true, 0, false, 0),
    tg("zt/hand_patricia", true, true, 0, false, 0), tg("zt/hand_critbit", true, true, 0, false, 0), tg("zt/hand_double_array", true, true, 0, false, 0),
    tg("zt/hand_louds", true, true, 0, false, 0), tg("zt/hand_sparse", true, true, 0, false, 0),
    tg("alias/patricia_trie", true, true, 0, false, 1), tg("alias/critbit_trie", true, true, 0, false, 1),
    tg("w/double_array", false, true, 0, false, 2), tg("w/nested_louds", false, true, 0, false, 2), tg("w/compressed_sparse", false, true, 0, false, 2),
    tg("w/double_array_builder", false, true, 2, false, 3), tg("w/nested_louds_builder", false, true, 2, false, 3),
    tg("dawg/nested_insert", false, true, 0, true, 3), tg("dawg/nested_build", false, false, 1, true, 3), tg("dawg/nested_build_insert", false, true, 1, true, 3),
    tg("dawg/simple", false, true, 0, false, 3),
    tg("par/new", false, true, 0, true, 4), tg("par/builder", false, true, 1, true, 4),
];
/// targets whose key counter is known to count duplicate inserts: half of their cases avoid duplicates so the other oracles are judged on their own
fn dup_sensitive(id: &str) -> bool { id.starts_with("dawg/") || id.starts_with("par/") }

enum Conf { Zt(ZiporaTrieConfig), PatAlias, CritAlias, Dat(Option<DoubleArrayTrieConfig>), DatBuilder(bool), Nlt(Option<NestingConfig>), NltBuilder, Cst(ConcurrencyLevel, bool), Dawg(DawgConfig, bool), Simple, ParNew, ParBuilder(usize, usize) }

fn choose(r: &mut Rng, id: &str) -> Result<(Conf, String), Fail> {
    let z = |c: ZiporaTrieConfig, d: &str| Ok((Conf::Zt(c), d.to_string()));
    match id {
        "zt/default" => z(ZiporaTrieConfig::default(), "default"),
        "zt/cache_optimized" => z(ZiporaTrieConfig::cache_optimized(), "cache_optimized"),
        "zt/space_optimized" => z(ZiporaTrieConfig::space_optimized(), "space_optimized"),
        "zt/sparse_optimized" => z(ZiporaTrieConfig::sparse_optimized(), "sparse_optimized"),
        "zt/string_specialized" => z(ZiporaTrieConfig::string_specialized(), "string_specialized"),
        "zt/concurrent_hp" => z(ZiporaTrieConfig::concurrent_high_performance(mk_pool()?), "concurrent_high_performance(small_secure pool)"),
        "zt/hand_patricia" => hand_config(r, 0).map(|(c, d)| (Conf::Zt(c), d)), "zt/hand_critbit" => hand_config(r, 1).map(|(c, d)| (Conf::Zt(c), d)),
        "zt/hand_double_array" => hand_config(r, 2).map(|(c, d)| (Conf::Zt(c), d)), "zt/hand_louds" => hand_config(r, 3).map(|(c, d)| (Conf::Zt(c), d)),
        "zt/hand_sparse" => hand_config(r, 4).map(|(c, d)| (Conf::Zt(c), d)),
        "alias/patricia_trie" => Ok((Conf::PatAlias, "PatriciaTrie::new()".into())),
        "alias/critbit_trie" => Ok((Conf::CritAlias, "CritBitTrie::new()".into())),
        "w/double_array" => Ok(if r.chance(1, 3) { (Conf::Dat(None), "DoubleArrayTrie::new()".to_string()) } else {
            let cfg = DoubleArrayTrieConfig { initial_capacity: *r.pick(&[0usize, 1, 2, 256, 4096]), growth_factor: *r.pick(&[1.0f64, 1.5, 2.0]), use_memory_pool: r.bool(), enable_simd: r.bool(), pool_size_class: 8192, auto_shrink: r.bool(), cache_aligned: r.bool(), heuristic_collision_avoidance: r.bool() };
            let d = format!("{cfg:?}"); (Conf::Dat(Some(cfg)), d) }),
        "w/nested_louds" => Ok(if r.chance(1, 3) { (Conf::Nlt(None), "NestedLoudsTrie::new()".to_string()) } else {
            let cfg = NestingConfig { max_levels: *r.pick(&[1usize, 3, 8]), cache_optimization: r.bool(), min_fragment_size: *r.pick(&[1usize, 64]), ..NestingConfig::default() };
            let d = format!("{cfg:?}"); (Conf::Nlt(Some(cfg)), d) }),
        "w/compressed_sparse" => { let lvl = *r.pick(&[ConcurrencyLevel::SingleThreadStrict, ConcurrencyLevel::SingleThreadShared, ConcurrencyLevel::OneWriteMultiRead, ConcurrencyLevel::MultiWriteMultiRead]); let wp = r.bool();
            Ok((Conf::Cst(lvl, wp), format!("CompressedSparseTrie level={lvl:?} pool={wp}"))) }
        "w/double_array_builder" => { let sorted = r.bool(); Ok((Conf::DatBuilder(sorted), if sorted { "DoubleArrayTrieBuilder::new().build_from_sorted" } else { "DoubleArrayTrieBuilder::new_compact().build_from_unsorted" }.to_string())) }
        "w/nested_louds_builder" => Ok((Conf::NltBuilder, "NestedLoudsTrie::builder().build_from_iter".into())),
        "dawg/nested_insert" => { let (c, d) = dawg_cfg(r); Ok((Conf::Dawg(c, false), d)) }
        "dawg/nested_build" | "dawg/nested_build_insert" => { let (c, d) = dawg_cfg(r); Ok((Conf::Dawg(c, true), format!("{d} build_from_keys"))) }
        "dawg/simple" => Ok((Conf::Simple, "SimpleDawg::new()".into())),
        "par/new" => Ok((Conf::ParNew, "ParallelLoudsTrie::new()".into())),
        "par/builder" => { let chunk = *r.pick(&[1usize, 2, 3, 7, 10000]); let w = *r.pick(&[1usize, 2, 8]); Ok((Conf::ParBuilder(chunk, w), format!("ParallelTrieBuilder chunk_size={chunk} max_workers={w}"))) }
        _ => unreachable!("unknown target {id}"),
    }
}

fn err_ctor(what: &str, e: impl std::fmt::Display) -> Fail { Fail { oracle: "ctor_err".into(), detail: format!("{what}: {e}") } }
fn rt() -> Result<tokio::runtime::Runtime, Fail> { tokio::runtime::Builder::new_current_thread().enable_all().build().map_err(|e| Fail { oracle: "__inconclusive".into(), detail: format!("tokio: {e}") }) }

/// `sorted_unique`: the init list handed to "sorted" builders is sorted and duplicate free (their contract); the others get it as generated.
fn build(c: &mut Case, conf: Conf, init: &[Key]) -> Result<Box<dyn Sut>, Fail> {
    Ok(match conf {
        Conf::Zt(cfg) => { c.note(&format!("strategy:{}", strategy_name(&cfg)), 1); Box::new(Zt(ZiporaTrie::with_config(cfg))) }
        Conf::PatAlias => { let t = PatriciaTrie::new(); c.note(&format!("strategy:{}", strategy_name(t.config())), 1); Box::new(Zt(t)) }
        Conf::CritAlias => { let t = CritBitTrie::new(); c.note(&format!("strategy:{}", strategy_name(t.config())), 1); Box::new(Zt(t)) }
        Conf::Dat(None) => Box::new(Dat(DoubleArrayTrie::new())),
        Conf::Dat(Some(cfg)) => Box::new(Dat(DoubleArrayTrie::with_config(cfg))),
        Conf::DatBuilder(sorted) => { let t = if sorted { DoubleArrayTrieBuilder::new().build_from_sorted(init.to_vec()) } else { DoubleArrayTrieBuilder::new_compact().build_from_unsorted(init.to_vec()) }; Box::new(Dat(t.map_err(|e| err_ctor("DoubleArrayTrieBuilder", e))?)) }
        Conf::Nlt(None) => Box::new(Nlt(NestedLoudsTrie::<RankSelectInterleaved256>::new().map_err(|e| err_ctor("NestedLoudsTrie", e))?)),
        Conf::Nlt(Some(cfg)) => Box::new(Nlt(NestedLoudsTrie::<RankSelectInterleaved256>::with_config(cfg).map_err(|e| err_ctor("NestedLoudsTrie", e))?)),
        Conf::NltBuilder => match NestedLoudsTrie::<RankSelectInterleaved256>::builder().build_from_iter(init.to_vec()) { Ok(t) => Box::new(Nlt(t)),
            // keys longer than 255 bytes are refused through the error channel: nothing to decide for this history
            Err(e) if init.iter().any(|k| k.len() > 255) => { c.note("build_refused", 1); return Err(Fail { oracle: "__refused".into(), detail: e.to_string() }); }
            Err(e) => return Err(err_ctor("NestedLoudsTrieBuilder", e)) },
        Conf::Cst(lvl, wp) => { let t = if wp { CompressedSparseTrie::with_memory_pool(lvl, mk_pool()?) } else { CompressedSparseTrie::new(lvl) }; Box::new(Cst(t.map_err(|e| err_ctor("CompressedSparseTrie", e))?)) }
        Conf::Dawg(cfg, built) => { let mut t = NestedTrieDawg::with_config(cfg).map_err(|e| err_ctor("NestedTrieDawg", e))?; if built { t.build_from_keys(init.iter()).map_err(|e| err_ctor("build_from_keys", e))?; } Box::new(Dawg(t)) }
        Conf::Simple => Box::new(Sd(SimpleDawg::new())),
        Conf::ParNew => Box::new(Par { rt: rt()?, t: ParallelLoudsTrie::new() }),
        Conf::ParBuilder(chunk, w) => { let rt = rt()?; let t = rt.block_on(ParallelTrieBuilder::new().chunk_size(chunk).max_workers(w).build_louds_trie(init.to_vec())).map_err(|e| err_ctor("build_louds_trie", e))?;
            c.note(if init.len() > chunk { "merge_path" } else { "single_chunk_path" }, 1); Box::new(Par { rt, t }) }
    })
}

fn shape(t: &Tgt, with_remove: bool, nodup: bool, conf: &Conf) -> Shape {
    let init = match conf { Conf::DatBuilder(true) => 1, _ => t.init };
    Shape { with_remove: with_remove && t.remove, with_insert: t.insert, init, cheap: t.cheap, nodup }
}

fn random_case(c: &mut Case, t: &Tgt, fam: u32, with_remove: bool, nodup: bool) -> Res {
    let (conf, d) = choose(&mut c.rng, t.id)?; let sh = shape(t, with_remove, nodup, &conf);
    let mut p = plan(&mut c.rng, fam, sh); if matches!(t.class, 2 | 3) && p.obs == 2 { p.obs = 0; }     // no enumeration API there
    record(c, &d, &p, sh);
    let mut s = match build(c, conf, &p.init) { Ok(s) => s, Err(f) if f.oracle == "__refused" => return Ok(()), Err(f) => return Err(f) };
    replay(c, s.as_mut(), &p, sh)
}

// ---------------------------------------------------------------------------------------------------------------
// directed histories: the smallest scripts that reach each region named by the property (and each known defect)
// ---------------------------------------------------------------------------------------------------------------
fn k(s: &[u8]) -> Key { s.to_vec() }
const DIRECTED: &[&str] = &["single_key", "reinsert", "remove_present", "remove_absent_prefix", "empty_key", "prefix_chain_churn", "drop_first_byte", "shared_suffix_after_build", "fanout_256", "byte_00_ff", "len_255_256", "base_collision"];
fn directed(name: &str, cheap: bool) -> (Vec<Key>, Vec<Op>) {
    let top: u8 = if cheap { 23 } else { 255 };
    use Op::*;
    match name {
        "single_key" => (vec![], vec![Ins(k(b"a"), false), Has(k(b"a")), Has(k(b"")), Has(k(b"ab")), Full]),
        "reinsert" => (vec![], vec![Ins(k(b"a"), false), Ins(k(b"a"), true), Ins(k(b"a"), false), Full]),
        "remove_present" => (vec![], vec![Ins(k(b"a"), false), Ins(k(b"b"), true), Rem(k(b"a")), Has(k(b"a")), Has(k(b"b")), Full, Ins(k(b"a"), false), Full]),
        "remove_absent_prefix" => (vec![], vec![Ins(k(b"abc"), false), Rem(k(b"ab")), Rem(k(b"abcd")), Rem(k(b"")), Has(k(b"abc")), Full]),
        "empty_key" => (vec![], vec![Ins(k(b""), false), Has(k(b"")), Full, Ins(k(b"a"), true), Rem(k(b"")), Has(k(b"")), Has(k(b"a")), Full]),
        "prefix_chain_churn" => (vec![], vec![Ins(k(b"ab"), false), Ins(k(b"a"), true), Ins(k(b"abc"), false), Full, Rem(k(b"ab")), Has(k(b"a")), Has(k(b"ab")), Has(k(b"abc")), Full, Ins(k(b"ab"), true), Rem(k(b"abc")), Rem(k(b"a")), Full]),
        "drop_first_byte" => (vec![], vec![Ins(k(b"abc"), false), Has(k(b"bc")), Has(k(b"aabc")), Has(k(b"")), Has(k(b"abc")), Full]),
        "shared_suffix_after_build" => (vec![k(b"ab"), k(b"cb")], vec![Full, Ins(k(b"abx"), false), Has(k(b"abx")), Has(k(b"cbx")), Has(k(b"cb")), Full]),
        "fanout_256" => { let mut ops = Vec::new(); for b in 0..=top { ops.push(Ins(vec![b], b & 1 == 0)); } ops.push(Full); for b in (0..=top).step_by(5) { ops.push(Ins(vec![b, 255 - b], false)); ops.push(Ins(vec![b, b, b], true)); } ops.push(Full); for b in (0..=top).step_by(3) { ops.push(Rem(vec![b])); } ops.push(Full); (vec![], ops) }
        "byte_00_ff" => (vec![], vec![Ins(vec![0], false), Ins(vec![0, 0], true), Ins(vec![0xff], false), Ins(vec![0xff, 0], true), Ins(vec![0, 0xff, 0], false), Has(vec![0, 0xff]), Has(vec![]), Full, Rem(vec![0]), Full]),
        "len_255_256" => (vec![], vec![Ins(vec![b'x'; 255], false), Ins(vec![b'x'; 256], true), Ins(vec![b'x'; 254], false), Has(vec![b'x'; 255]), Has(vec![b'x'; 256]), Has(vec![b'x'; 257]), Full]),
        // children of state s are placed at base(s)+byte with base(s)=max(s/4,1): these keys make the slots of different parents collide
        _ => (vec![], vec![Ins(vec![0], false), Ins(vec![0, 0], false), Ins(vec![0, 1], false), Ins(vec![1], false), Ins(vec![1, 0], false), Ins(vec![2, 2, 2], false), Ins(vec![0, 0, 0], false), Ins(vec![3], false), Ins(vec![1, 1, 1, 1], false), Full, Ins(vec![0, 1, 2], false), Ins(vec![4, 0], false), Ins(vec![2], false), Full]),
    }
}

fn directed_case(c: &mut Case, t: &Tgt, name: &str) -> Res {
    let (conf, d) = choose(&mut c.rng, t.id)?; let mut sh = shape(t, true, name != "reinsert", &conf);     // only the `reinsert` script re-inserts members
    let (mut init, mut ops) = directed(name, t.cheap);
    if sh.init == 0 || init.is_empty() { let mut pre: Vec<Op> = init.drain(..).map(|x| Op::Ins(x, false)).collect(); pre.append(&mut ops); ops = pre; sh.init = 0; } else { init.sort(); init.dedup(); }
    if !sh.with_remove { ops.retain(|o| !matches!(o, Op::Rem(_))); }
    if !sh.with_insert { for o in &ops { if let Op::Ins(x, _) = o { init.push(x.clone()); } } init.sort(); init.dedup(); ops.retain(|o| !matches!(o, Op::Ins(..))); }
    let pool: Vec<Key> = ops.iter().filter_map(|o| match o { Op::Ins(x, _) | Op::Rem(x) | Op::Has(x) => Some(x.clone()), Op::Full => None }).chain(init.iter().cloned()).collect();
    let p = Plan { fam: FAMS, init, ops, pool, obs: 0 };
    c.input_str("script", name); record(c, &d, &p, sh);
    let mut s = match build(c, conf, &p.init) { Ok(s) => s, Err(f) if f.oracle == "__refused" => return Ok(()), Err(f) => return Err(f) };
    replay(c, s.as_mut(), &p, sh)
}


// ---------------------------------------------------------------------------------------------------------------
// huge_* families: sizes just above the 16/17/20-bit limits (state ids, key lengths, byte offsets, element counts, capacities)
// ---------------------------------------------------------------------------------------------------------------
/// Cost model of a target for large inputs (what is affordable below ~2 s per case):
/// the inherent `ZiporaTrie::insert` recomputes its statistics over all nodes on every call (the legacy wrappers always go through it),
/// the compressed-sparse insert scans all state ids, LOUDS storage is a linear record list, the sparse DAWG table is scanned per state on build.
#[derive(Clone, Copy, PartialEq, Debug)]
enum Cost { Pat, Da, Sp, Lo, Crit, WDa, WSp, WLo, DawgIns, DawgBuild, Simple, Par }
fn cost_of(conf: &Conf) -> Cost {
    match conf {
        Conf::Zt(cfg) => match cfg.trie_strategy { TrieStrategy::Patricia { .. } => Cost::Pat, TrieStrategy::DoubleArray { .. } => Cost::Da, TrieStrategy::CompressedSparse { .. } => Cost::Sp, TrieStrategy::Louds { .. } => Cost::Lo, TrieStrategy::CriticalBit { .. } => Cost::Crit },
        Conf::PatAlias | Conf::CritAlias => Cost::Pat,
        Conf::Dat(_) | Conf::DatBuilder(_) => Cost::WDa, Conf::Nlt(_) | Conf::NltBuilder => Cost::WLo, Conf::Cst(..) => Cost::WSp,
        Conf::Dawg(_, false) => Cost::DawgIns, Conf::Dawg(_, true) => Cost::DawgBuild, Conf::Simple => Cost::Simple, Conf::ParNew | Conf::ParBuilder(..) => Cost::Par,
    }
}
const HUGE_CAPS: &[usize] = &[65537, 131073, 196609, 262145];

/// Which huge families run on which target (L long keys, M many keys, F two-level 256-way fan-out, B many long records).
fn huge_fams(id: &str) -> &'static [&'static str] {
    const L: &str = "huge_long_key"; const M: &str = "huge_many_keys"; const F: &str = "huge_fanout"; const B: &str = "huge_label_bytes";
    match id {
        "zt/default" => &[L, M, F, B], "zt/cache_optimized" => &[B], "zt/hand_patricia" => &[F], "alias/patricia_trie" => &[M],
        "zt/concurrent_hp" => &[F], "zt/hand_double_array" => &[L, M], "zt/sparse_optimized" => &[L, M], "zt/hand_sparse" => &[L, F],
        "zt/space_optimized" => &[B, M], "zt/hand_louds" => &[B, F],
        "w/double_array" => &[M], "w/double_array_builder" => &[L], "w/compressed_sparse" => &[L, M], "w/nested_louds" => &[B, M], "w/nested_louds_builder" => &[B],
        "dawg/nested_insert" | "dawg/simple" => &[L, M, F], "dawg/nested_build" => &[L, M], "dawg/nested_build_insert" => &[M],
        _ => &[],      // critical-bit stubs store nothing; ParallelLoudsTrie copies the whole trie into 17 replicas per insert
    }
}

/// A long byte string of one of the data shapes: all-equal, short period, one dominant symbol, random, two identical halves around a pivot byte.
fn long_string(r: &mut Rng, len: usize) -> (Key, &'static str) {
    match r.below(5) {
        0 => (vec![*r.pick(&[0u8, b'x', 0xff]); len], "all_equal"),
        1 => { let p = r.urange(2, 7); let pat = r.bytes(p); ((0..len).map(|i| pat[i % p]).collect(), "periodic") }
        2 => { let d = r.next() as u8; ((0..len).map(|_| if r.chance(9, 10) { d } else { r.next() as u8 }).collect(), "dominant90") }
        3 => (r.bytes(len), "random"),
        _ => { let h = (len - 1) / 2; let half = r.bytes(h); let mut x = half.clone(); x.push(r.next() as u8); x.extend_from_slice(&half); while x.len() < len { x.push(r.next() as u8); } (x, "half_c_half") }
    }
}

/// Returns the plan and the number of automaton states it needs (for the DAWG state limit).
fn huge_plan(r: &mut Rng, fam: &str, cost: Cost, t: &Tgt) -> Option<(Plan, usize, String)> {
    use Op::*;
    let mut bulk: Vec<Key> = Vec::new(); let mut ops: Vec<Op> = Vec::new(); let need; let desc;
    let rm = t.remove && cost != Cost::Lo;      // remove() on LOUDS storage is the known no-op (covered by the mix/directed families): keep the huge LOUDS cases about insert/lookup/enumeration
    match fam {
        "huge_long_key" => {
            let lens: &[usize] = match cost { Cost::Pat => &[65535, 65536, 65537, 70001], Cost::Da | Cost::WDa => &[65536, 65537, 70001], Cost::Sp | Cost::WSp => &[65536, 65537], Cost::DawgIns => &[65537, 131073, 131074], Cost::Simple => &[65537, 131073, 262145], Cost::DawgBuild => &[65535, 65537], _ => return None };
            let l = *r.pick(lens); let (x, shape) = long_string(r, l); desc = format!("len={l} shape={shape}"); need = l + 600;
            let c1 = x[l - 1] ^ 0x01; let e1 = r.next() as u8; let e2 = e1 ^ 0x80;
            bulk.push(x.clone()); bulk.push(x[..l - 1].to_vec()); for cut in [65535usize, 65536, 3] { if cut < l - 1 { bulk.push(x[..cut].to_vec()); } }
            let mut y = x[..l - 1].to_vec(); y.push(c1); bulk.push(y);                                     // sibling at the last byte: long shared prefix, differing byte at offset > 2^16
            let mut y = x.clone(); y.push(e1); bulk.push(y); let mut y = x.clone(); y.push(e2); bulk.push(y);    // X e1 / X e2
            if cost != Cost::Pat && cost != Cost::DawgBuild { let mut y = x[..l / 2].to_vec(); y.push(x[l / 2] ^ 0xff); y.extend((0..300).map(|i| i as u8)); bulk.push(y); }
            bulk.push(vec![x[0] ^ 0xff, 1, 2]);
            // probes: one byte changed at offsets 0, mid, 65535, 65536, last; truncated / extended
            let mut probes: Vec<Key> = Vec::new();
            for pos in [0usize, l / 2, 65534, 65535, 65536, l - 2, l - 1] { if pos < l { let mut y = x.clone(); y[pos] = y[pos].wrapping_add(1); probes.push(y); } }
            probes.push(x[..l - 2].to_vec()); let mut y = x.clone(); y.push(e1 ^ 1); probes.push(y); let mut y = x.clone(); y.push(e1); y.push(0); probes.push(y); probes.push(x.clone());
            r.shuffle(&mut bulk);
            for q in &probes { ops.push(Has(q.clone())); }
            if rm { ops.push(Rem(x[..l - 1].to_vec())); ops.push(Has(x.clone())); ops.push(Rem(x.clone())); ops.push(Rem(x[..l - 2].to_vec())); for q in probes.iter().take(4) { ops.push(Has(q.clone())); } ops.push(Ins(x.clone(), true)); }
            ops.push(Full);
        }
        "huge_many_keys" => {
            let ns: &[usize] = match cost { Cost::Pat => &[65537, 66000, 70001], Cost::Da => &[65537, 66000], Cost::DawgIns | Cost::Simple => &[65537, 100003, 131073], Cost::DawgBuild => &[65537, 66000],
                Cost::Sp => &[12000], Cost::WSp => &[8000], Cost::Lo | Cost::WLo => &[11000], Cost::WDa => &[12000], _ => return None };
            let n = *r.pick(ns);
            // be3: dense big-endian counter (keys differ in the low byte first); hi: the counter's bytes reversed (siblings differ only in the last = high byte)
            let enc = if matches!(cost, Cost::Pat | Cost::DawgBuild) { 0 } else { r.below(2) }; let off = r.below(1 << 23) as usize; let tail: &[u8] = if matches!(cost, Cost::Lo | Cost::WLo) { b"\x00z" } else { b"" };
            let key = |i: usize| -> Key { let v = i + if enc == 0 { 0 } else { off }; let mut k = if enc == 0 { vec![(v >> 16) as u8, (v >> 8) as u8, v as u8] } else { vec![v as u8, (v >> 8) as u8, (v >> 16) as u8] }; k.extend_from_slice(tail); k };
            let mut order: Vec<usize> = (0..n).collect(); let shuffled = r.bool(); if shuffled { r.shuffle(&mut order); }
            desc = format!("n={n} enc={} order={}", if enc == 0 { "be3" } else { "le3" }, if shuffled { "shuffled" } else { "ascending" }); need = if enc == 0 { n + n / 256 + 600 } else { n + 65536 + 600 };
            for &i in &order { bulk.push(key(i)); }
            ops.push(Full);
            if rm { let keep = *r.pick(&[257usize, 4099, 65521]); let every = if cost == Cost::Da { 16 } else { 1 };       // the double array prints DEBUG lines per transition: remove a sixteenth there
                for &i in &order { if i % keep != 1 && i % every == 0 { ops.push(Rem(key(i))); } } ops.push(Full); }
            for _ in 0..200 { let i = r.usize_below(n + 50); ops.push(Has(key(i))); }
            if t.insert { for _ in 0..300 { let i = r.usize_below(n); ops.push(Ins(key(i), r.chance(29, 30))); } ops.push(Full); }
        }
        "huge_fanout" => {
            let w: usize = match cost { Cost::Pat | Cost::DawgIns | Cost::Simple => 256, Cost::Da => 64, Cost::Sp | Cost::Lo | Cost::WLo => 40, Cost::WDa => 80, Cost::WSp => 30, _ => return None };
            let pl = r.usize_below(3); let pre = r.bytes(pl); let mut firsts: Vec<u8> = (0..=255u8).collect(); r.shuffle(&mut firsts); let with_inner = r.bool();
            desc = format!("prefix_len={pl} full_second_level_under={w} inner_keys={with_inner}"); need = 256 * w + 1000;
            let k2 = |a: u8, b: u8| -> Key { let mut k = pre.clone(); k.push(a); k.push(b); k };
            for &a in &firsts { if with_inner { let mut k = pre.clone(); k.push(a); bulk.push(k); } }
            for &a in firsts.iter().take(w) { for b in 0..=255u8 { bulk.push(k2(a, b)); } }
            if r.bool() { r.shuffle(&mut bulk); }
            ops.push(Full);
            if rm { // remove down to one child at both levels
                let (a0, b0) = (firsts[r.usize_below(w)], r.next() as u8);
                for kx in bulk.clone() { if kx != k2(a0, b0) { ops.push(Rem(kx)); } }
                ops.push(Full); ops.push(Has(k2(a0, b0))); ops.push(Has(k2(a0, b0 ^ 1))); ops.push(Has(k2(a0 ^ 1, b0))); let mut k = pre.clone(); k.push(a0); ops.push(Has(k));
                ops.push(Ins(k2(a0 ^ 1, b0), true)); ops.push(Rem(k2(a0, b0))); ops.push(Full);
            } else { for _ in 0..100 { ops.push(Has(k2(r.next() as u8, r.next() as u8))); } }
        }
        "huge_label_bytes" => {
            let n = match cost { Cost::Lo | Cost::WLo => *r.pick(&[300usize, 600, 1200]), Cost::Pat => 300, _ => return None };
            let sl = r.urange(180, 200); let (sp, shape) = long_string(r, sl); desc = format!("n={n} shared_prefix={sl} shape={shape}"); need = 0;
            for i in 0..n { let tl = if i % 7 == 0 { 255 - sl } else if i % 11 == 0 { 254 - sl } else { r.urange(1, 255 - sl) }; let mut k = sp.clone(); k.extend(r.bytes(tl)); bulk.push(k); }
            let mut k = sp.clone(); k.extend(r.bytes(256 - sl)); bulk.push(k);          // 256 bytes: refused by the LOUDS length prefix, accepted elsewhere
            ops.push(Full);
            if rm && r.bool() { for kx in bulk.iter().step_by(3) { ops.push(Rem(kx.clone())); } ops.push(Full); }
            for _ in 0..100 { let kx = r.pick(&bulk).clone(); ops.push(Has(near(r, &kx))); }
            if t.insert { for kx in bulk.iter().step_by(5) { ops.push(Ins(kx.clone(), r.bool())); } ops.push(Full); }
        }
        _ => return None,
    }
    // the bulk goes through the builder where there is one, else through (trait) inserts; a few go through the inherent insert
    let mut init: Vec<Key> = Vec::new();
    if t.init != 0 || !t.insert { init = bulk; if t.init == 1 || !t.insert { init.sort(); init.dedup(); } }
    else { let mut pre: Vec<Op> = Vec::with_capacity(bulk.len() + ops.len()); let step = (bulk.len() / 7).max(1); for (i, b) in bulk.into_iter().enumerate() { pre.push(Ins(b, i % step != step - 1)); } pre.append(&mut ops); ops = pre; }
    if !t.insert { ops.retain(|o| !matches!(o, Ins(..))); }
    if !rm { ops.retain(|o| !matches!(o, Rem(_))); }
    let mut pool: Vec<Key> = ops.iter().filter_map(|o| match o { Has(x) => Some(x.clone()), _ => None }).take(64).collect(); if pool.is_empty() { pool.push(vec![0]); }
    Some((Plan { fam: FAMS, init, ops, pool, obs: 0 }, need, desc))
}

/// The enumeration functions of the library recurse once per key byte (`collect_keys_*_recursive`); with keys of 64 KiB and more that exhausts the
/// default 8 MiB main-thread stack (process abort, see the report). The property is about the answers, not about stack use, so the huge cases run
/// on a thread with a large stack; a panic inside is re-raised on the caller so that `ctx.case` records it as usual.
fn on_big_stack<T: Send>(f: impl FnOnce() -> T + Send) -> T {
    std::thread::scope(|sc| {
        let h = std::thread::Builder::new().stack_size(1 << 30).spawn_scoped(sc, f).expect("spawn big-stack thread");
        match h.join() { Ok(v) => v, Err(p) => std::panic::resume_unwind(p) }
    })
}
fn huge_case(c: &mut Case, t: &Tgt, fam: &str) -> Res {
    // ZV_C05_MAIN_STACK=1 runs the case on the caller's stack instead: reproduces the stack exhaustion of the recursive enumeration (worker abort)
    if std::env::var_os("ZV_C05_MAIN_STACK").is_some() { return huge_case_inner(c, t, fam); }
    on_big_stack(move || huge_case_inner(c, t, fam))
}

fn huge_case_inner(c: &mut Case, t: &Tgt, fam: &str) -> Res {
    let (mut conf, mut d) = choose(&mut c.rng, t.id)?; let cost = cost_of(&conf);
    let Some((p, need, desc)) = huge_plan(&mut c.rng, fam, cost, t) else { return Ok(()) };
    // capacities just above powers of two; DAWG state limit / table kind that fits the plan
    match &mut conf {
        Conf::Zt(cfg) => { let cap = *c.rng.pick(HUGE_CAPS);
            if let TrieStrategy::DoubleArray { initial_capacity, .. } = &mut cfg.trie_strategy { *initial_capacity = cap; d.push_str(&format!(" initial_capacity:={cap}")); }
            if let StorageStrategy::Standard { initial_capacity, .. } = &mut cfg.storage_strategy { *initial_capacity = cap; d.push_str(&format!(" storage_capacity:={cap}")); } }
        Conf::Dat(Some(cfg)) => { let cap = *c.rng.pick(HUGE_CAPS); cfg.initial_capacity = cap; d.push_str(&format!(" initial_capacity:={cap}")); }
        Conf::Dawg(cfg, built) => { let dense = *built || (need <= 70_000 && !cfg.compressed_storage); cfg.compressed_storage = !dense; cfg.max_states = if dense { need } else { cfg.max_states.max(need) };
            d = format!("DawgConfig rank_select={} cache={} compressed_storage={} max_states={}{}", cfg.use_rank_select, cfg.enable_cache, cfg.compressed_storage, cfg.max_states, if *built { " build_from_keys" } else { "" }); }
        _ => {}
    }
    let mut sh = shape(t, true, false, &conf); if let Conf::DatBuilder(true) = conf { sh.init = 1; }
    let mut p = p; if sh.init == 1 { p.init.sort(); p.init.dedup(); }
    c.input_str("huge", fam); c.input_str("shape", &desc); record(c, &d, &p, sh); c.note(&format!("cost:{cost:?}"), 1);
    let mut s = match build(c, conf, &p.init) { Ok(s) => s, Err(f) if f.oracle == "__refused" => return Ok(()), Err(f) => return Err(f) };
    replay(c, s.as_mut(), &p, sh)
}

pub fn run(ctx: &mut Ctx) {
    // cases per (target class, generator kind, family)
    let n_ins = ctx.n(10, 250) as u64; let n_mix = ctx.n(14, 350) as u64; let n_wr = ctx.n(12, 300) as u64; let n_small = ctx.n(8, 200) as u64; let n_par = ctx.n(4, 60) as u64;
    for t in TARGETS { for name in DIRECTED.iter() { for rep in 0..(if t.id.contains("hand_") || t.id.starts_with("w/") || t.id.starts_with("dawg/nested") || t.id == "par/builder" { 3 } else { 1 }) { ctx.case(t.id, &format!("directed/{name}"), rep, |c| directed_case(c, t, name)); } } }
    let n_huge = ctx.n(1, 12) as u64;
    for t in TARGETS { for &hf in huge_fams(t.id) { for idx in 0..n_huge { ctx.case(t.id, hf, idx, |c| huge_case(c, t, hf)); } } }
    for fam in 0..FAMS {
        let f = fam_name(fam);
        for t in TARGETS {
            let (ni, nm) = match t.class { 0 => (n_ins, n_mix), 1 => (n_ins.div_ceil(2), n_mix.div_ceil(2)), 2 => (n_wr, 0), 3 => (n_small, 0), _ => (n_par, 0) };
            let base = if t.init != 0 { "build" } else { "ins" };
            for idx in 0..ni { let nd = dup_sensitive(t.id) && idx % 2 == 1; ctx.case(t.id, &format!("{base}{}/{f}", if nd { "_nodup" } else { "" }), idx, |c| random_case(c, t, fam, false, nd)); }
            for idx in 0..nm { ctx.case(t.id, &format!("mix/{f}"), idx, |c| random_case(c, t, fam, true, false)); }
        }
    }
    run_ext(ctx);
}

fn dawg_cfg(r: &mut Rng) -> (DawgConfig, String) {
    let dense = r.chance(1, 3);
    let cfg = DawgConfig { use_rank_select: r.bool(), enable_cache: r.bool(), compressed_storage: !dense, max_states: if dense { 3000 } else { *r.pick(&[3000usize, 100_000, 1_000_000]) }, ..DawgConfig::default() };
    let d = format!("DawgConfig rank_select={} cache={} compressed_storage={} max_states={}", cfg.use_rank_select, cfg.enable_cache, cfg.compressed_storage, cfg.max_states);
    (cfg, d)
}

// ===============================================================================================================
// ext_* families: the public functions of the anchor files that the histories above never call
//   ext_nodeid   insert_and_get_node_id / lookup_node_id / restore_string           (second lookup path + id -> key conversion)
//   ext_shrink   shrink_to_fit interleaved with a history                            (must not change the set)
//   ext_stats    stats().num_keys / performance_stats() of ZiporaTrie and the wrappers (second `len` path), TrieIterator::new
//   ext_dawalk   DoubleArrayTrie::{is_terminal,is_free,get_parent,get_base,get_check}, ZiporaTrie::*_double_array: the state walk
//   ext_cfgbuilder / ext_preset / ext_token   alternative constructors: NestingConfig::builder(), DawgConfig presets, NestedTrieDawg::new(),
//                CompressedSparseTrie::insert_with_token                               (same histories, same oracles as ins/*)
//   ext_par_*    ParallelLoudsTrie::parallel_process, ParallelTrieOps::{merge_tries,compute_similarity,find_common_prefixes}
// Known defects of the unchanged tree are kept out of these families (no critical-bit targets, no remove on LOUDS storage, no
// insert after build_from_keys) so that every verdict here is about the newly reached function.
// ===============================================================================================================
use zipora::concurrency::parallel_trie::ParallelTrieOps;
use zipora::fsa::zipora_trie::TrieIterator;
use zipora::fsa::{NestingConfigBuilder, VersionManager};

#[derive(Clone, Copy, PartialEq, Debug)]
enum Ext { NodeId, Shrink, Stats, DaWalk }
impl Ext { fn gen(self) -> &'static str { match self { Ext::NodeId => "ext_nodeid", Ext::Shrink => "ext_shrink", Ext::Stats => "ext_stats", Ext::DaWalk => "ext_dawalk" } } }

/// Getters the property says nothing about: called (so that they are reached under the monitor), never judged.
fn unjudged(c: &mut Case, what: &str, f: impl FnOnce()) { if let Err(p) = crate::ctx::catch(f) { c.note(&format!("getter_panic:{what}"), 1); c.log(format!("getter {what} panicked at {}: {}", p.loc, p.msg)); } }

#[allow(clippy::too_many_arguments)]
fn da_walk(c: &mut Case, mon: &mut Mon, m: &Set, probes: &[Key], root: u32, tr: &dyn Fn(u32, u8) -> Option<u32>, term: &dyn Fn(u32) -> bool, free: &dyn Fn(u32) -> bool, parent: &dyn Fn(u32) -> u32, check: &dyn Fn(u32) -> u32) {
    for k in probes {
        let (mut s, mut ok) = (root, true);
        for &b in k.iter() { match tr(s, b) {
            Some(n) => { // structural accessors: the documentation does not say what they return for which state - notes only
                if free(n) { c.note("da_reached_state_is_free", 1); } if parent(n) != s { c.note("da_parent_ne_walk_parent", 1); } if check(n) != parent(n) { c.note("da_check_ne_parent", 1); } s = n; }
            None => { ok = false; break; } } }
        let got = ok && term(s); let is_m = m.contains(k);
        mon.chk(c, got == is_m, "fsa_walk_ne_member", || format!("root/transition walk of {} {} and is_terminal(end)={}, member={is_m}", hx(k), if ok { "completes" } else { "stops early" }, ok && term(s)));
    }
}

fn zt_ext(t: &ZiporaTrie, c: &mut Case, mon: &mut Mon, m: &Set, probes: &[Key], kind: Ext) {
    match kind {
        Ext::Stats => {
            let n = t.stats().num_keys; mon.chk(c, n == m.len(), "stats_num_keys", || format!("stats().num_keys={n}, model has {} (len()={})", m.len(), ZiporaTrie::len(t)));
            let e = TrieIterator::new().count(); mon.chk(c, e == 0, "empty_iterator", || format!("TrieIterator::new() yields {e} keys"));
            unjudged(c, "zt", || { let _ = (t.capacity(), t.memory_stats(), t.is_cache_optimized(), t.config().max_levels(), t.memory_usage()); });
        }
        Ext::NodeId => {
            // only the Patricia and LOUDS storages implement node ids ("return None for now" elsewhere)
            let supported = matches!(t.config().trie_strategy, TrieStrategy::Patricia { .. } | TrieStrategy::Louds { .. });
            for k in probes {
                let is_m = m.contains(k); let id = t.lookup_node_id(k);
                if !supported { if id.is_some() != is_m { c.note("node_id_unsupported", 1); } continue; }
                mon.chk(c, id.is_some() == is_m, "lookup_node_id_ne_member", || format!("lookup_node_id({}) = {id:?}, member={is_m} (|set|={})", hx(k), m.len()));
                if let (Some(id), true) = (id, is_m) { let s = t.restore_string(id); mon.chk(c, s.as_deref() == Some(k.as_slice()), "restore_string", || format!("restore_string(lookup_node_id({}) = {id}) = {}", hx(k), match &s { Some(x) => hx(x), None => "None".into() })); }
            }
        }
        Ext::DaWalk => if let TrieStrategy::DoubleArray { .. } = t.config().trie_strategy {
            da_walk(c, mon, m, probes, FiniteStateAutomaton::root(t), &|s, b| FiniteStateAutomaton::transition(t, s, b), &|s| FiniteStateAutomaton::is_final(t, s), &|s| t.is_free_double_array(s), &|s| t.get_parent_double_array(s), &|s| t.get_check_double_array(s));
        },
        Ext::Shrink => {}
    }
}

fn dat_ext(t: &DoubleArrayTrie, c: &mut Case, mon: &mut Mon, m: &Set, probes: &[Key], kind: Ext) {
    match kind {
        Ext::Stats => { let n = t.stats().num_keys; mon.chk(c, n == m.len(), "stats_num_keys", || format!("DoubleArrayTrie::stats().num_keys={n}, model has {}", m.len()));
            unjudged(c, "dat", || { let _ = (t.capacity(), t.memory_stats(), t.memory_usage(), t.bits_per_key(), t.config()); }); }
        Ext::DaWalk => { da_walk(c, mon, m, probes, FiniteStateAutomaton::root(t), &|s, b| FiniteStateAutomaton::transition(t, s, b), &|s| t.is_terminal(s), &|s| t.is_free(s), &|s| t.get_parent(s), &|s| t.get_check(s)); let _ = t.get_base(0); }
        _ => {}
    }
}

fn nlt_ext(t: &NestedLoudsTrie<RankSelectInterleaved256>, c: &mut Case, mon: &mut Mon, m: &Set, kind: Ext) {
    if kind != Ext::Stats { return; }
    let n = t.stats().num_keys; mon.chk(c, n == m.len(), "stats_num_keys", || format!("NestedLoudsTrie::stats().num_keys={n}, model has {}", m.len()));
    let ps = t.performance_stats(); mon.chk(c, ps.num_keys == m.len() && ps.key_count == m.len(), "stats_num_keys", || format!("performance_stats(): num_keys={} key_count={}, model has {}", ps.num_keys, ps.key_count, m.len()));
    unjudged(c, "nlt", || { let _ = (t.memory_usage(), t.config(), t.active_levels(), t.bits_per_key()); });
}

/// Calls `shrink_to_fit` before every `period`-th mutation; everything else is the wrapped target.
struct ShrinkEvery { inner: Box<dyn Sut>, period: usize, n: usize }
impl ShrinkEvery { fn tick(&mut self) { self.n += 1; if self.n % self.period == 0 { self.inner.shrink(); } } }
impl Sut for ShrinkEvery {
    fn insert(&mut self, k: &[u8], alt: bool) -> Result<(), String> { self.tick(); self.inner.insert(k, alt) }
    fn remove(&mut self, k: &[u8]) -> Option<Result<bool, String>> { self.tick(); self.inner.remove(k) }
    fn contains(&self, k: &[u8]) -> bool { self.inner.contains(k) }
    fn contains_alt(&self, k: &[u8]) -> Option<bool> { self.inner.contains_alt(k) }
    fn len(&self) -> usize { self.inner.len() }
    fn is_empty(&self) -> Option<bool> { self.inner.is_empty() }
    fn keys(&self) -> Option<Vec<Key>> { self.inner.keys() }
    fn keys_with_prefix(&self, p: &[u8]) -> Option<Vec<Key>> { self.inner.keys_with_prefix(p) }
    fn iter_all(&self) -> Option<Vec<Key>> { self.inner.iter_all() }
    fn iter_prefix(&self, p: &[u8]) -> Option<Vec<Key>> { self.inner.iter_prefix(p) }
    fn accepts(&self, k: &[u8]) -> Option<bool> { self.inner.accepts(k) }
    fn longest_prefix(&self, q: &[u8]) -> Option<Option<usize>> { self.inner.longest_prefix(q) }
    fn finish(&self, c: &mut Case) { self.inner.finish(c) }
}

/// CompressedSparseTrie through its token API: `insert_with_token` / `contains_with_token` / `lookup_with_token` with tokens of a VersionManager.
struct CstTok { t: CompressedSparseTrie, vm: VersionManager }
impl Sut for CstTok {
    fn insert(&mut self, k: &[u8], alt: bool) -> Result<(), String> {
        if alt { return self.t.insert(k).map_err(|e| e.to_string()); }
        let tok = self.vm.acquire_writer_token().map_err(|e| format!("writer token: {e}"))?; self.t.insert_with_token(k, &tok).map_err(|e| e.to_string())
    }
    fn contains(&self, k: &[u8]) -> bool { self.t.contains(k) }
    fn contains_alt(&self, k: &[u8]) -> Option<bool> { let tok = self.vm.acquire_reader_token().ok()?; let a = self.t.contains_with_token(k, &tok); let b = self.t.lookup_with_token(k, &tok).is_some(); let c0 = self.t.contains(k); Some(if a == c0 && b == c0 { c0 } else { !c0 }) }
    fn len(&self) -> usize { self.t.len() }
    fn is_empty(&self) -> Option<bool> { Some(self.t.is_empty()) }
    fn accepts(&self, k: &[u8]) -> Option<bool> { Some(FiniteStateAutomaton::accepts(&self.t, k)) }
    fn longest_prefix(&self, q: &[u8]) -> Option<Option<usize>> { Some(FiniteStateAutomaton::longest_prefix(&self.t, q)) }
}

fn tgt(id: &str) -> &'static Tgt { TARGETS.iter().find(|t| t.id == id).expect("target id") }
fn is_louds(conf: &Conf) -> bool { match conf { Conf::Zt(cfg) => matches!(cfg.trie_strategy, TrieStrategy::Louds { .. }), Conf::Nlt(_) | Conf::NltBuilder => true, _ => false } }

/// A history applied to the target and the model side by side (the model is trusted: ins/* and mix/* judge the basic operations),
/// with the extra observers of `kind` compared at every `Full` checkpoint.
fn replay_ext(c: &mut Case, s: &mut dyn Sut, p: &Plan, kind: Ext) -> Res {
    let mut m: Set = p.init.iter().cloned().collect();
    let mut mon = Mon { fails: vec![], step: 0, opdesc: "after build".into() }; let mut ok_new = m.len(); let mut r = c.rng.fork();
    for (i, op) in p.ops.iter().enumerate() {
        mon.step = i; if mon.fails.len() >= 8 { break; }
        match op {
            Op::Ins(k, alt) => {
                mon.opdesc = format!("insert {}", hx(k));
                let res = if kind == Ext::NodeId { match s.insert_id(k) { Some(x) => x.map(Some), None => s.insert(k, *alt).map(|_| None) } } else { s.insert(k, *alt).map(|_| None) };
                match res {
                    Ok(id) => { if m.insert(k.clone()) { ok_new += 1; }
                        // "returns the same node id" is a code comment, not documentation: note only
                        if let (Some(id), Some(l)) = (id, s.lookup_id(k)) { if l.is_some() && l != Some(id) { c.note("insert_id_ne_lookup_id", 1); } } }
                    Err(e) => { c.note("insert_refused", 1); c.log(format!("insert refused: {e}")); } }
            }
            Op::Rem(k) => { mon.opdesc = format!("remove {}", hx(k)); if s.remove(k).is_some() { m.remove(k); } }
            Op::Has(_) => {}
            Op::Full => { mon.opdesc = format!("ext check, |set|={}", m.len()); let (mut probes, nm) = probe_keys(&mut r, &m, &p.pool); probes.extend(nm); c.note("ext_checks", 1); s.ext(c, &mut mon, &m, &probes, kind); }
        }
    }
    c.note("final_set_size", m.len() as u64); c.set_nontrivial(ok_new >= 2);
    mon.done(c)
}

fn ext_case(c: &mut Case, t: &Tgt, fam: u32, kind: Ext, idx: u64) -> Res {
    let (conf, d) = choose(&mut c.rng, t.id)?;
    let mut sh = shape(t, t.remove && !is_louds(&conf), false, &conf);
    if kind == Ext::NodeId && idx % 2 == 0 { sh.cheap = true; }       // restore_string searches the whole node table per call
    let period = if kind == Ext::Shrink { *c.rng.pick(&[1usize, 2, 3, 5, 9, 17]) } else { 0 };
    let p = plan(&mut c.rng, fam, sh);
    c.input_str("ext", kind.gen()); if period != 0 { c.input_str("shrink_period", &period.to_string()); }
    record(c, &d, &p, sh);
    let mut s = match build(c, conf, &p.init) { Ok(s) => s, Err(f) if f.oracle == "__refused" => return Ok(()), Err(f) => return Err(f) };
    if kind == Ext::Shrink {
        let mut w = ShrinkEvery { inner: s, period, n: 0 };
        // a class violated here and silent in ins/* / mix/* is caused by shrink_to_fit: own oracle names
        return replay(c, &mut w, &p, sh).map_err(|f| Fail { oracle: format!("after_shrink:{}", f.oracle), detail: f.detail });
    }
    replay_ext(c, s.as_mut(), &p, kind)
}

// ---- alternative constructors ------------------------------------------------------------------------------------
fn alt_ctor_case(c: &mut Case, t: &Tgt, fam: u32, what: &str, nodup: bool) -> Res {
    let sh = Shape { with_remove: false, with_insert: t.insert, init: t.init, cheap: t.cheap, nodup };
    let mut d; let mk: Box<dyn FnOnce(&mut Case, &[Key]) -> Result<Box<dyn Sut>, Fail>>;
    match what {
        "ext_cfgbuilder" => {
            let r = &mut c.rng; let via_new = r.bool();
            let (ml, fcr, minf, maxf, co, cbs, dst, abs, mps) = (*r.pick(&[0usize, 1, 3, 8]), *r.pick(&[0.0f64, 0.5, 1.0]), *r.pick(&[0usize, 1, 64]), *r.pick(&[1usize, 256, 65536]), r.bool(), *r.pick(&[32usize, 64, 128]), *r.pick(&[0.0f64, 0.5]), r.bool(), *r.pick(&[0usize, 4096]));
            d = format!("{}.max_levels({ml}).fragment_compression_ratio({fcr}).min_fragment_size({minf}).max_fragment_size({maxf}).cache_optimization({co}).cache_block_size({cbs}).density_switch_threshold({dst}).adaptive_backend_selection({abs}).memory_pool_size({mps}).build()", if via_new { "NestingConfigBuilder::new()" } else { "NestingConfig::builder()" });
            mk = Box::new(move |_c, _init| {
                let b = if via_new { NestingConfigBuilder::new() } else { NestingConfig::builder() };
                let cfg = b.max_levels(ml).fragment_compression_ratio(fcr).min_fragment_size(minf).max_fragment_size(maxf).cache_optimization(co).cache_block_size(cbs).density_switch_threshold(dst).adaptive_backend_selection(abs).memory_pool_size(mps).build();
                let cfg = match cfg { Ok(x) => x, Err(e) => return Err(Fail { oracle: "__refused".into(), detail: e.to_string() }) };      // a refused configuration decides nothing
                Ok(Box::new(Nlt(NestedLoudsTrie::<RankSelectInterleaved256>::with_config(cfg).map_err(|e| err_ctor("NestedLoudsTrie", e))?)) as Box<dyn Sut>) });
        }
        "ext_preset" => {
            let v = c.rng.below(3); let built = t.init != 0;
            d = format!("{}{}", ["NestedTrieDawg::new()", "DawgConfig::memory_efficient()", "DawgConfig::performance_optimized()"][v as usize], if built { " build_from_keys" } else { "" });
            mk = Box::new(move |_c, init| {
                let mut g = match v { 0 => NestedTrieDawg::new(), 1 => NestedTrieDawg::with_config(DawgConfig::memory_efficient()), _ => NestedTrieDawg::with_config(DawgConfig::performance_optimized()) }.map_err(|e| err_ctor("NestedTrieDawg", e))?;
                if built { g.build_from_keys(init.iter()).map_err(|e| err_ctor("build_from_keys", e))?; }
                Ok(Box::new(Dawg(g)) as Box<dyn Sut>) });
        }
        _ => {
            let lvl = *c.rng.pick(&[ConcurrencyLevel::SingleThreadStrict, ConcurrencyLevel::SingleThreadShared, ConcurrencyLevel::OneWriteMultiRead, ConcurrencyLevel::MultiWriteMultiRead]);
            d = format!("CompressedSparseTrie level={lvl:?} insert_with_token(VersionManager writer token)");
            mk = Box::new(move |_c, _init| Ok(Box::new(CstTok { t: CompressedSparseTrie::new(lvl).map_err(|e| err_ctor("CompressedSparseTrie", e))?, vm: VersionManager::new(lvl) }) as Box<dyn Sut>));
        }
    }
    let mut p = plan(&mut c.rng, fam, sh); if p.obs == 2 { p.obs = 0; }
    c.input_str("ext", what); record(c, &d, &p, sh);
    let mut s = match mk(c, &p.init) { Ok(s) => s, Err(f) if f.oracle == "__refused" => { c.note("build_refused", 1); return Ok(()) } Err(f) => return Err(f) };
    replay(c, s.as_mut(), &p, sh)
}

// ---- ParallelLoudsTrie::parallel_process and ParallelTrieOps -----------------------------------------------------------
fn uniq_keys(r: &mut Rng, pool: &[Key], max: usize) -> Vec<Key> { let n = r.urange(0, max.min(pool.len())); let mut v: Vec<Key> = (0..n).map(|_| r.pick(pool).clone()).collect(); v.sort(); v.dedup(); r.shuffle(&mut v); v }
fn enc_keys(ks: &[Key]) -> Vec<u8> { let mut e = Vec::new(); for k in ks { e.extend_from_slice(&(k.len() as u16).to_le_bytes()); e.extend_from_slice(k); } e }

fn par_ext_case(c: &mut Case, t: &Tgt, fam: u32, what: &str) -> Res {
    let rt = rt()?;
    let pool = key_pool(&mut c.rng, fam, true);
    let builder = t.id == "par/builder"; let (chunk, workers) = (*c.rng.pick(&[1usize, 3, 7, 10000]), *c.rng.pick(&[1usize, 2, 8]));
    let ntries = if what == "ext_par_merge" { *c.rng.pick(&[0usize, 1, 2, 2, 3, 4]) } else if what == "ext_par_similarity" { 2 } else { 1 };
    let mut sets: Vec<Vec<Key>> = (0..ntries).map(|_| uniq_keys(&mut c.rng, &pool, 24)).collect();
    if what == "ext_par_similarity" { match c.rng.below(6) { 0 => sets[1] = sets[0].clone(), 1 => sets[1].clear(), 2 => { sets[0].clear(); sets[1].clear(); } 3 => { let h = sets[0].len() / 2; let extra = sets[0][..h].to_vec(); sets[1].extend(extra); sets[1].sort(); sets[1].dedup(); } _ => {} } }
    let min_support = *c.rng.pick(&[0usize, 1, 2, 2, 3, 5]);
    c.input_str("ext", what); c.input_str("cfg", &if builder { format!("ParallelTrieBuilder chunk_size={chunk} max_workers={workers}") } else { "ParallelLoudsTrie::new()+bulk_insert".to_string() }); c.input_str("fam", fam_name(fam));
    for (i, s) in sets.iter().enumerate() { c.input(&format!("keys{i}"), &enc_keys(s)); }
    if what == "ext_common_prefixes" { c.input_str("min_support", &min_support.to_string()); }
    if sets.iter().any(|s| !s.is_empty()) { c.tag("nonempty"); } if sets.iter().any(|s| s.iter().any(|k| k.is_empty())) { c.tag("empty_key"); }
    c.set_nontrivial(sets.iter().map(|s| s.len()).sum::<usize>() >= 2);
    let mut mon = Mon { fails: vec![], step: 0, opdesc: what.to_string() };
    let mk = |keys: &[Key]| -> Result<ParallelLoudsTrie, Fail> {
        if builder { rt.block_on(ParallelTrieBuilder::new().chunk_size(chunk).max_workers(workers).build_louds_trie(keys.to_vec())).map_err(|e| err_ctor("build_louds_trie", e)) }
        else { let t = ParallelLoudsTrie::new(); rt.block_on(t.bulk_insert(keys.to_vec())).map_err(|e| err_ctor("bulk_insert", e))?; Ok(t) } };
    let model = |keys: &[Key]| -> Set { keys.iter().cloned().collect() };
    match what {
        "ext_par_process" => {
            let m = model(&sets[0]); let t = mk(&sets[0])?; let mut r = c.rng.fork(); let (mut probes, nm) = probe_keys(&mut r, &m, &pool); probes.extend(nm);
            // every operation runs on some read replica: each must answer like the set
            let ops: Vec<_> = probes.iter().map(|k| { let k = k.clone(); move |z: &ZiporaTrie| -> zipora::error::Result<(bool, usize)> { Ok((ZiporaTrie::contains(z, &k), ZiporaTrie::len(z))) } }).collect();
            let res = rt.block_on(t.parallel_process(ops));
            mon.chk(c, res.len() == probes.len(), "parallel_process_count", || format!("{} results for {} operations", res.len(), probes.len()));
            for (k, x) in probes.iter().zip(res.iter()) { let is_m = m.contains(k); match x {
                Ok((got, n)) => { mon.chk(c, *got == is_m, if is_m { "replica_lost_key" } else { "replica_phantom_key" }, || format!("parallel_process(contains {}) = {got}, member={is_m} (|set|={})", hx(k), m.len())); mon.chk(c, *n == m.len(), "replica_len", || format!("replica len()={n}, model has {}", m.len())); }
                Err(e) => mon.chk(c, false, "parallel_process_err", || format!("operation on {} returned Err({e}) although the closure returned Ok", hx(k))) } }
        }
        "ext_par_merge" => {
            let mut u = Set::new(); let mut tries = Vec::new(); for s in &sets { u.extend(s.iter().cloned()); tries.push(mk(s)?); }
            let merged = rt.block_on(ParallelTrieOps::merge_tries(tries)).map_err(|e| err_ctor("merge_tries", e))?;
            let mut s = Par { rt, t: merged }; let mut p = pool.clone(); p.truncate(12);
            full_check(c, &mut mon, &mut s, &u, &p, false, 0);
        }
        "ext_par_similarity" => {
            let (a, b) = (model(&sets[0]), model(&sets[1])); let (ta, tb) = (mk(&sets[0])?, mk(&sets[1])?);
            let got = rt.block_on(ParallelTrieOps::compute_similarity(&ta, &tb, c.rng.usize_below(50))).map_err(|e| err_ctor("compute_similarity", e))?;
            let (i, un) = (a.intersection(&b).count(), a.union(&b).count());
            // "Jaccard similarity"; two empty sets are documented nowhere: the code's 1.0 is accepted, as is 0.0
            if un == 0 { c.note("similarity_of_two_empty", 1); mon.chk(c, got == 1.0 || got == 0.0, "similarity", || format!("similarity of two empty tries = {got}")); }
            else { let want = i as f64 / un as f64; mon.chk(c, (got - want).abs() < 1e-12, "similarity", || format!("compute_similarity = {got}, |A∩B|/|A∪B| = {i}/{un} = {want}")); }
        }
        _ => {
            let keys = sets[0].clone(); let got = rt.block_on(ParallelTrieOps::find_common_prefixes(keys.clone(), min_support)).map_err(|e| err_ctor("find_common_prefixes", e))?;
            let m = model(&keys); let mut want: Set = Set::new();
            for k in &keys { for l in 1..=k.len() { let p = &k[..l]; if with_prefix(&m, p).len() >= min_support { want.insert(p.to_vec()); } } }
            // whether the empty prefix is a "common prefix" is not documented: ignored on both sides
            let got: Vec<Key> = got.into_iter().filter(|p| !p.is_empty()).collect(); let want: Vec<Key> = want.into_iter().collect();
            cmp_list(&mut mon, c, "common_prefixes", &format!("find_common_prefixes(min_support={min_support})"), got, &want);
        }
    }
    mon.done(c)
}

const EXT_TARGETS: &[(Ext, &[&str])] = &[
    (Ext::NodeId, &["zt/default", "zt/cache_optimized", "zt/hand_patricia", "alias/patricia_trie", "zt/space_optimized", "zt/hand_louds", "zt/hand_double_array", "zt/sparse_optimized"]),
    (Ext::Shrink, &["zt/hand_double_array", "zt/concurrent_hp", "w/double_array", "w/double_array_builder", "zt/default"]),
    (Ext::Stats, &["zt/default", "zt/space_optimized", "zt/sparse_optimized", "zt/hand_double_array", "w/double_array", "w/nested_louds", "w/compressed_sparse"]),
    (Ext::DaWalk, &["zt/hand_double_array", "zt/concurrent_hp", "w/double_array", "w/double_array_builder"]),
];

fn run_ext(ctx: &mut Ctx) {
    let n_ext = ctx.n(3, 40) as u64; let n_par = ctx.n(2, 20) as u64;
    for fam in 0..FAMS {
        let f = fam_name(fam);
        for (kind, ids) in EXT_TARGETS { for id in ids.iter() { let t = tgt(id); for idx in 0..n_ext { ctx.case(t.id, &format!("{}/{f}", kind.gen()), idx, |c| ext_case(c, t, fam, *kind, idx)); } } }
        for idx in 0..n_ext {
            let t = tgt("w/nested_louds"); ctx.case(t.id, &format!("ext_cfgbuilder/{f}"), idx, |c| alt_ctor_case(c, t, fam, "ext_cfgbuilder", false));
            for id in ["dawg/nested_insert", "dawg/nested_build"] { let t = tgt(id); ctx.case(t.id, &format!("ext_preset/{f}"), idx, |c| alt_ctor_case(c, t, fam, "ext_preset", true)); }
            let t = tgt("w/compressed_sparse"); ctx.case(t.id, &format!("ext_token/{f}"), idx, |c| alt_ctor_case(c, t, fam, "ext_token", false));
        }
        for id in ["par/new", "par/builder"] { let t = tgt(id); for what in ["ext_par_process", "ext_par_merge", "ext_par_similarity", "ext_common_prefixes"] { for idx in 0..n_par { ctx.case(t.id, &format!("{what}/{f}"), idx, |c| par_ext_case(c, t, fam, what)); } } }
    }
}
