//! C16 — version tokens: one writer at a time, nothing reclaimed while still visible, counts exact, no use-after-free.
//!
//! Targets
//!   conc/<level>/<api>   controlled-scheduler executions (2-3 threads x 2-6 ops) on one manager; monitors: writer exclusion,
//!                        min_version <= every registered live token, reclamation callback, counts at quiescence
//!   stress/<level>       free-running threads (native / TSan / Miri): writer-exclusion shadow counter + counts at the end
//!   lifetime/seq         sequential histories over several managers, thread-local token cache, every drop order
//!                        (count bounds natively; use-after-free becomes a Miri / ASan report)
use crate::ctx::{fail, Case, Ctx, Res};
use crate::sched::{self, Stall, Strategy};
use std::sync::atomic::{AtomicI64, AtomicU64, Ordering};
use std::sync::{Arc, Mutex};
use zipora::fsa::token::{with_reader_token, with_writer_token, TokenManager};
use zipora::fsa::version_sync::{ConcurrencyLevel, LazyFreeItem, LazyFreeList, ReaderToken, VersionManager, WriterToken};
use zipora::verif_hooks::site;

#[derive(Clone, Copy, Debug, PartialEq)]
enum Op { AcqR, AcqW, DropOldest, DropNewest, Retire, Reclaim, ReturnR, ReturnW, WithR, WithW, ClearCache }

fn level_name(l: ConcurrencyLevel) -> &'static str { match l { ConcurrencyLevel::OneWriteMultiRead => "owmr", ConcurrencyLevel::MultiWriteMultiRead => "mwmr", ConcurrencyLevel::SingleThreadShared => "sts", ConcurrencyLevel::SingleThreadStrict => "strict", ConcurrencyLevel::NoWriteReadOnly => "ro" } }

enum Tok { R(ReaderToken), W(WriterToken) }
impl Tok { fn version(&self) -> u64 { match self { Tok::R(t) => t.version(), Tok::W(t) => t.version() } } fn is_w(&self) -> bool { matches!(self, Tok::W(_)) } }

#[derive(Default)]
struct Mon {
    live: Mutex<Vec<(u64, bool)>>, // (version, is_writer) of registered live tokens; versions are unique in the synchronised levels
    in_op: [AtomicI64; 4],
    violations: Mutex<Vec<(String, String)>>,
    busy_refusals: AtomicU64,
    acquired: AtomicU64,
    reclaimed: AtomicU64,
    cache_hits: AtomicU64,
}
impl Mon {
    fn viol(&self, oracle: &str, d: String) { let mut v = self.violations.lock().unwrap(); if v.len() < 4 { v.push((oracle.to_string(), d)); } }
    /// register a token right after it was obtained (idempotent: a token handed out again from the thread cache is already registered)
    fn register(&self, version: u64, w: bool) { let mut l = self.live.lock().unwrap(); if l.iter().any(|x| *x == (version, w)) { self.cache_hits.fetch_add(1, Ordering::SeqCst); } else { l.push((version, w)); self.acquired.fetch_add(1, Ordering::SeqCst); } }
    /// deregister right before the token is dropped
    fn deregister(&self, version: u64, w: bool) { self.live.lock().unwrap().retain(|x| *x != (version, w)); }
    fn writers(&self) -> usize { self.live.lock().unwrap().iter().filter(|x| x.1).count() }
}

fn gen_ops(c: &mut Case, n: usize, api_tm: bool) -> Vec<Op> {
    let mut v = Vec::new();
    for _ in 0..n {
        let r = c.rng.below(100);
        let op = if api_tm {
            match r { 0..=19 => Op::AcqR, 20..=39 => Op::AcqW, 40..=54 => Op::DropOldest, 55..=62 => Op::ReturnR, 63..=70 => Op::ReturnW, 71..=78 => Op::WithR, 79..=86 => Op::WithW, 87..=92 => Op::ClearCache, 93..=96 => Op::Retire, _ => Op::Reclaim }
        } else {
            match r { 0..=24 => Op::AcqR, 25..=54 => Op::AcqW, 55..=74 => Op::DropOldest, 75..=84 => Op::DropNewest, 85..=92 => Op::Retire, _ => Op::Reclaim }
        };
        v.push(op);
    }
    v
}

/// Body of one client thread against a VersionManager (direct API) or TokenManager (per-thread cache API).
/// Monitor discipline: a token is registered right after the call that produced it returns and deregistered right
/// before the call that may drop it; tokens parked in the thread cache stay registered (they are still live).
fn client(tid: usize, ops: Vec<Op>, vm: Arc<VersionManager>, tm: Option<Arc<TokenManager>>, mon: Arc<Mon>, lfl: Arc<Mutex<LazyFreeList>>, level: ConcurrencyLevel, controlled: bool) {
    let mut held: Vec<Tok> = Vec::new();
    let mut cache_r: Option<u64> = None; let mut cache_w: Option<u64> = None; // model of this thread's cache slots (token versions)
    let pt = |s: u32| { if controlled { sched::point(s); } };
    let reg = |mon: &Mon, version: u64, w: bool| {
        mon.register(version, w);
        if w && level == ConcurrencyLevel::OneWriteMultiRead { let n = mon.writers(); if n > 1 { mon.viol("two_writers", format!("thread {tid}: {n} writer tokens live at once in OneWriteMultiRead (newest version {version})")); } }
    };
    for op in ops {
        pt(sched::SITE_CLIENT);
        mon.in_op[tid].store(1, Ordering::SeqCst);
        match op {
            Op::AcqR => { let r = match &tm { Some(tm) => tm.acquire_reader_token(), None => vm.acquire_reader_token() }; if let Ok(t) = r { reg(&mon, t.version(), false); if cache_r == Some(t.version()) { cache_r = None; } held.push(Tok::R(t)); } }
            Op::AcqW => { let r = match &tm { Some(tm) => tm.acquire_writer_token(), None => vm.acquire_writer_token() };
                match r { Ok(t) => { reg(&mon, t.version(), true); if cache_w == Some(t.version()) { cache_w = None; } held.push(Tok::W(t)); } Err(_) => { mon.busy_refusals.fetch_add(1, Ordering::SeqCst); } } }
            Op::DropOldest => { if !held.is_empty() { let t = held.remove(0); mon.deregister(t.version(), t.is_w()); drop(t); } }
            Op::DropNewest => { if let Some(t) = held.pop() { mon.deregister(t.version(), t.is_w()); drop(t); } }
            Op::Retire => { let age = vm.current_version(); lfl.lock().unwrap().push(LazyFreeItem::new(age, 0, 8)); }
            Op::Reclaim => { let mv = vm.min_version(); let m2 = mon.clone(); let mut l = lfl.lock().unwrap();
                l.process_safe_items(mv, |item| { m2.reclaimed.fetch_add(1, Ordering::SeqCst); let live = m2.live.lock().unwrap(); if let Some(x) = live.iter().find(|x| x.0 <= item.age) { m2.viol("reclaimed_while_visible", format!("item retired at version {} handed to free callback while token version {} is live (min_version {})", item.age, x.0, mv)); } }); }
            Op::ReturnR => { if let (Some(tm), Some(i)) = (&tm, held.iter().position(|x| !x.is_w())) { if let Tok::R(t) = held.remove(i) { if let Some(old) = cache_r.take() { mon.deregister(old, false); } cache_r = Some(t.version()); tm.return_reader_token(t); } } }
            Op::ReturnW => { if let (Some(tm), Some(i)) = (&tm, held.iter().position(|x| x.is_w())) { if let Tok::W(t) = held.remove(i) { if let Some(old) = cache_w.take() { mon.deregister(old, true); } cache_w = Some(t.version()); tm.return_writer_token(t); } } }
            Op::WithR => { if let Some(tm) = &tm { let mut seen = None; let _ = with_reader_token(tm, |t| { let v = t.version(); reg(&mon, v, false); if cache_r != Some(v) { if let Some(old) = cache_r.take() { mon.deregister(old, false); } } seen = Some(v); Ok(()) }); if let Some(v) = seen { cache_r = Some(v); } } }
            Op::WithW => { if let Some(tm) = &tm { let mut seen = None; let r = with_writer_token(tm, |t| { let v = t.version(); reg(&mon, v, true); if cache_w != Some(v) { if let Some(old) = cache_w.take() { mon.deregister(old, true); } } seen = Some(v); Ok(()) }); if let Some(v) = seen { cache_w = Some(v); } if r.is_err() { mon.busy_refusals.fetch_add(1, Ordering::SeqCst); } } }
            Op::ClearCache => { if let Some(tm) = &tm { if let Some(v) = cache_r.take() { mon.deregister(v, false); } if let Some(v) = cache_w.take() { mon.deregister(v, true); } tm.clear_thread_cache(); } }
        }
        mon.in_op[tid].store(0, Ordering::SeqCst);
    }
    pt(sched::SITE_CLIENT);
    mon.in_op[tid].store(1, Ordering::SeqCst);
    for t in held.drain(..) { mon.deregister(t.version(), t.is_w()); drop(t); }
    if let Some(tm) = &tm { if let Some(v) = cache_r.take() { mon.deregister(v, false); } if let Some(v) = cache_w.take() { mon.deregister(v, true); } tm.clear_thread_cache(); }
    mon.in_op[tid].store(0, Ordering::SeqCst);
}

fn conc_case(c: &mut Case, level: ConcurrencyLevel, api_tm: bool, scripted: u32) -> Res {
    let nthreads = if scripted == 2 { 3 } else { 2 + c.rng.usize_below(2) };
    let vm = Arc::new(VersionManager::new(level));
    let tm = if api_tm { Some(Arc::new(TokenManager::with_version_manager(vm.clone()))) } else { None };
    let mon = Arc::new(Mon::default());
    let lfl = Arc::new(Mutex::new(LazyFreeList::with_bulk_threshold(4)));
    let mut all_ops = Vec::new();
    let mut stalls = vec![];
    for t in 0..nthreads {
        let ops = match scripted {
            1 => vec![Op::AcqW, Op::DropOldest],                                   // two writers racing through check-then-increment
            2 => match t { 0 => vec![Op::AcqR, Op::DropOldest], 1 => vec![Op::AcqR, Op::Retire, Op::Reclaim, Op::DropOldest], _ => vec![Op::AcqR, Op::AcqW, Op::DropOldest, Op::DropOldest] },
            _ => { let n = 2 + c.rng.usize_below(5); gen_ops(c, n, api_tm) }
        };
        all_ops.push(ops);
    }
    if scripted == 1 { stalls.push(Stall { thread: 0, site: site::VS_WRITER_AFTER_CHECK, nth: 1, until_thread: 1, until_site: site::VS_WRITER_AFTER_VERSION, until_count: 1 }); }
    if scripted == 2 { // T0 releases its reader and parks after seeing "no tokens"; T1 and T2 acquire; T0 resumes and stores min = current
        stalls.push(Stall { thread: 0, site: site::VS_ADVANCE_AFTER_LOAD1, nth: 1, until_thread: 2, until_site: site::VS_READER_AFTER_VERSION, until_count: 1 });
        stalls.push(Stall { thread: 1, site: sched::SITE_CLIENT, nth: 1, until_thread: 0, until_site: site::VS_RELEASE_AFTER_DECREMENT, until_count: 1 });
        stalls.push(Stall { thread: 2, site: sched::SITE_CLIENT, nth: 1, until_thread: 1, until_site: site::VS_READER_AFTER_VERSION, until_count: 1 });
    }
    c.input_str("level", level_name(level)); c.input_str("ops", &format!("{all_ops:?}"));
    let strat = match c.rng.below(3) { 0 => Strategy::Random { switch_pct: 30 + c.rng.below(60) as u32 }, 1 => Strategy::Pct { depth: 2 + c.rng.below(3) as u32, horizon: 60 }, _ => Strategy::Random { switch_pct: 50 } };
    c.input_str("strategy", &format!("{strat:?} scripted={scripted}"));
    let sseed = c.rng.next();
    let mut bodies: Vec<Box<dyn FnOnce() + Send>> = Vec::new();
    for (t, ops) in all_ops.iter().cloned().enumerate() {
        let (vm, tm, mon, lfl) = (vm.clone(), tm.clone(), mon.clone(), lfl.clone());
        bodies.push(Box::new(move || client(t, ops, vm, tm, mon, lfl, level, true)));
    }
    let (vm2, mon2) = (vm.clone(), mon.clone());
    let inv: Arc<dyn Fn() -> Option<String> + Send + Sync> = Arc::new(move || {
        let mv = vm2.min_version();
        let live = mon2.live.lock().unwrap();
        if let Some(x) = live.iter().find(|x| x.0 < mv) { return Some(format!("min_version_exceeds_live_token: min_version()={mv} > version {} of a live {} token", x.0, if x.1 { "writer" } else { "reader" })); }
        if mon2.in_op.iter().all(|f| f.load(Ordering::SeqCst) == 0) {
            let (r, w) = (live.iter().filter(|x| !x.1).count() as u64, live.iter().filter(|x| x.1).count() as u64);
            if vm2.active_readers() != r || vm2.active_writers() != w { return Some(format!("counts_mismatch_at_quiescent_point: active_readers={} active_writers={} but live tokens are {r} readers {w} writers", vm2.active_readers(), vm2.active_writers())); }
        }
        None
    });
    let res = sched::run_controlled(sseed, strat, stalls, bodies, Some(inv));
    c.ev(res.steps); c.hash_more(&res.trace_hash.to_le_bytes());
    c.note("sched_steps", res.steps); for (s, n) in &res.site_visits { c.note(&format!("site{s}"), *n); }
    c.note(&format!("ilv:{:016x}", res.trace_hash), 1);
    c.note("acquired", mon.acquired.load(Ordering::SeqCst)); c.note("busy_refusals", mon.busy_refusals.load(Ordering::SeqCst)); c.note("reclaimed", mon.reclaimed.load(Ordering::SeqCst)); c.note("cache_hits", mon.cache_hits.load(Ordering::SeqCst));
    c.set_nontrivial(res.steps >= 4);
    if res.aborted { return crate::ctx::inconclusive("scheduler watchdog/step limit fired"); }
    if let Some(p) = res.panics.first() { return fail("panic_in_client", p.clone()); }
    if let Some((o, d)) = mon.violations.lock().unwrap().first().cloned() { return fail(&o, format!("{d}; schedule={:?}", &res.trace[..res.trace.len().min(80)])); }
    if let Some(v) = res.violation { let o = v.split(':').next().unwrap_or("invariant").to_string(); return fail(&o, format!("{v}; schedule={:?}", &res.trace[..res.trace.len().min(80)])); }
    // quiescence: everything dropped, caches cleared
    ensure!(vm.active_readers() == 0 && vm.active_writers() == 0, "counts_nonzero_at_quiescence", "after all threads finished: active_readers={} active_writers={}", vm.active_readers(), vm.active_writers());
    Ok(())
}

fn stress_case(c: &mut Case, level: ConcurrencyLevel) -> Res {
    let threads = if cfg!(miri) { 2 } else { 4 }; let iters = if cfg!(miri) { 6 } else { c.rng.urange(2000, 6000) };
    c.input_str("level", level_name(level)); c.input_str("threads_iters", &format!("{threads}x{iters}"));
    let vm = Arc::new(VersionManager::new(level));
    let live_w = Arc::new(AtomicI64::new(0)); let two = Arc::new(AtomicU64::new(0)); let minviol = Arc::new(AtomicU64::new(0)); let acq = Arc::new(AtomicU64::new(0));
    sched::free_visits_reset();
    sched::free_running_on(c.rng.next(), 20);
    let hs: Vec<_> = (0..threads).map(|t| { let (vm, live_w, two, minviol, acq) = (vm.clone(), live_w.clone(), two.clone(), minviol.clone(), acq.clone()); std::thread::spawn(move || {
        for i in 0..iters {
            if (i + t) % 3 != 0 {
                if let Ok(tok) = vm.acquire_writer_token() { acq.fetch_add(1, Ordering::Relaxed);
                    if live_w.fetch_add(1, Ordering::SeqCst) + 1 > 1 && level == ConcurrencyLevel::OneWriteMultiRead { two.fetch_add(1, Ordering::SeqCst); }
                    if vm.min_version() > tok.version() { minviol.fetch_add(1, Ordering::SeqCst); }
                    live_w.fetch_sub(1, Ordering::SeqCst); drop(tok); }
            } else if let Ok(tok) = vm.acquire_reader_token() { acq.fetch_add(1, Ordering::Relaxed); if vm.min_version() > tok.version() { minviol.fetch_add(1, Ordering::SeqCst); } drop(tok); }
        } }) }).collect();
    for h in hs { h.join().map_err(|_| crate::ctx::Fail { oracle: "panic_in_client".into(), detail: "stress thread panicked".into() })?; }
    sched::free_running_off();
    let visits = sched::free_visits_snapshot(); for (s, n) in &visits { c.note(&format!("site{s}"), *n); }
    c.ev(acq.load(Ordering::SeqCst)); c.set_nontrivial(true);
    ensure!(two.load(Ordering::SeqCst) == 0, "two_writers", "{} observations of two simultaneously live writer tokens in OneWriteMultiRead (free-running, {} acquisitions)", two.load(Ordering::SeqCst), acq.load(Ordering::SeqCst));
    ensure!(minviol.load(Ordering::SeqCst) == 0, "min_version_exceeds_live_token", "{} observations of min_version() > version of the token the thread itself holds", minviol.load(Ordering::SeqCst));
    ensure!(vm.active_readers() == 0 && vm.active_writers() == 0, "counts_nonzero_at_quiescence", "after join: active_readers={} active_writers={}", vm.active_readers(), vm.active_writers());
    Ok(())
}

// ---- sequential lifetime histories ------------------------------------------------------------
#[derive(Clone, Debug)]
enum LOp { NewVm(u8), NewTm(u8), AcqR(usize), AcqW(usize), Return(usize, usize), DropTok(usize), DropMgr(usize), ClearCache }
enum Mgr { Vm(Box<VersionManager>), Tm(TokenManager) }
impl Mgr { fn vm(&self) -> &VersionManager { match self { Mgr::Vm(v) => v, Mgr::Tm(t) => t.version_manager() } } }

fn lifetime_case(c: &mut Case, with_drop_mgr: bool) -> Res {
    let mut hist = Vec::new();
    let r = lifetime_inner(c, with_drop_mgr, &mut hist);
    c.input_str("history", &format!("{hist:?}")); c.set_nontrivial(hist.len() >= 4);
    r
}
fn lifetime_inner(c: &mut Case, with_drop_mgr: bool, hist: &mut Vec<LOp>) -> Res {
    let levels = [ConcurrencyLevel::OneWriteMultiRead, ConcurrencyLevel::MultiWriteMultiRead, ConcurrencyLevel::SingleThreadShared, ConcurrencyLevel::SingleThreadStrict];
    let n = c.rng.urange(4, 14);
    let mut mgrs: Vec<Option<Mgr>> = Vec::new();
    // token: (Tok, via manager index, in_cache)
    let mut toks: Vec<Option<(Tok, usize)>> = Vec::new();
    let mut cached: (Vec<usize>, Vec<usize>) = (vec![], vec![]); // "via" managers of tokens that may sit in the cache (upper bound)
    // make sure nothing from earlier cases sits in this thread's cache
    TokenManager::new(ConcurrencyLevel::SingleThreadStrict).clear_thread_cache();
    let check = |mgrs: &Vec<Option<Mgr>>, toks: &Vec<Option<(Tok, usize)>>, cached: &(Vec<usize>, Vec<usize>), hist: &Vec<LOp>| -> Res {
        for (i, m) in mgrs.iter().enumerate() { if let Some(m) = m {
            let lr = toks.iter().flatten().filter(|t| t.1 == i && !t.0.is_w()).count() as u64; let lw = toks.iter().flatten().filter(|t| t.1 == i && t.0.is_w()).count() as u64;
            let ur = lr + cached.0.iter().filter(|&&v| v == i).count() as u64; let uw = lw + cached.1.iter().filter(|&&v| v == i).count() as u64;
            let (ar, aw) = (m.vm().active_readers(), m.vm().active_writers());
            if m.vm().concurrency_level() != ConcurrencyLevel::NoWriteReadOnly {
                ensure!(ar >= lr && ar <= ur, "reader_count_vs_live_tokens", "manager {i}: active_readers()={ar} but {lr} reader tokens obtained from it are held (at most {ur} incl. cache); history={hist:?}");
                ensure!(aw >= lw && aw <= uw, "writer_count_vs_live_tokens", "manager {i}: active_writers()={aw} but {lw} writer tokens obtained from it are held (at most {uw} incl. cache); history={hist:?}");
            }
        } }
        Ok(())
    };
    for _ in 0..n {
        let alive: Vec<usize> = (0..mgrs.len()).filter(|&i| mgrs[i].is_some()).collect();
        let tms: Vec<usize> = alive.iter().copied().filter(|&i| matches!(mgrs[i], Some(Mgr::Tm(_)))).collect();
        let live_toks: Vec<usize> = (0..toks.len()).filter(|&i| toks[i].is_some()).collect();
        let r = c.rng.below(100);
        let op = if alive.is_empty() || (r < 12 && mgrs.len() < 4) { if c.rng.bool() { LOp::NewTm(c.rng.below(2) as u8) } else { LOp::NewVm(c.rng.below(4) as u8) } }
            else if r < 40 { LOp::AcqR(*c.rng.pick(&alive)) } else if r < 60 { LOp::AcqW(*c.rng.pick(&alive)) }
            else if r < 72 && !tms.is_empty() && !live_toks.is_empty() { LOp::Return(*c.rng.pick(&tms), *c.rng.pick(&live_toks)) }
            else if r < 86 && !live_toks.is_empty() { LOp::DropTok(*c.rng.pick(&live_toks)) }
            else if r < 93 && with_drop_mgr { LOp::DropMgr(*c.rng.pick(&alive)) }
            else if !tms.is_empty() { LOp::ClearCache } else { LOp::AcqR(*c.rng.pick(&alive)) };
        hist.push(op.clone());
        c.log(format!("{op:?}"));
        match op {
            LOp::NewVm(l) => mgrs.push(Some(Mgr::Vm(Box::new(VersionManager::new(levels[l as usize % 4]))))),
            LOp::NewTm(l) => mgrs.push(Some(Mgr::Tm(TokenManager::new(levels[l as usize % 2])))),
            LOp::AcqR(i) => { let r = match mgrs[i].as_ref().unwrap() { Mgr::Vm(v) => v.acquire_reader_token(), Mgr::Tm(t) => t.acquire_reader_token() }; if let Ok(t) = r { toks.push(Some((Tok::R(t), i))); } }
            LOp::AcqW(i) => { let r = match mgrs[i].as_ref().unwrap() { Mgr::Vm(v) => v.acquire_writer_token(), Mgr::Tm(t) => t.acquire_writer_token() }; if let Ok(t) = r { toks.push(Some((Tok::W(t), i))); } }
            LOp::Return(m, ti) => { let (t, via) = toks[ti].take().unwrap(); if let Some(Mgr::Tm(tm)) = &mgrs[m] { match t { Tok::R(t) => { tm.return_reader_token(t); cached.0.push(via); } Tok::W(t) => { tm.return_writer_token(t); cached.1.push(via); } } } }
            LOp::DropTok(ti) => { let t = toks[ti].take(); drop(t); }
            LOp::DropMgr(i) => { mgrs[i] = None; }
            LOp::ClearCache => { if let Some(&m) = tms.first() { if let Some(Mgr::Tm(tm)) = &mgrs[m] { tm.clear_thread_cache(); cached.0.clear(); cached.1.clear(); } } }
        }
        c.ev(1);
        check(&mgrs, &toks, &cached, hist)?;
    }
    // quiescence: drop all tokens, clear the cache, every surviving manager must report zero
    for t in toks.iter_mut() { let x = t.take(); drop(x); }
    TokenManager::new(ConcurrencyLevel::SingleThreadStrict).clear_thread_cache(); cached.0.clear(); cached.1.clear();
    for (i, m) in mgrs.iter().enumerate() { if let Some(m) = m { let (ar, aw) = (m.vm().active_readers(), m.vm().active_writers()); ensure!(ar == 0 && aw == 0, "counts_nonzero_at_quiescence", "manager {i}: active_readers={ar} active_writers={aw} after every token was dropped and the cache cleared; history={hist:?}"); } }
    Ok(())
}

pub fn run(ctx: &mut Ctx) {
    let levels = [ConcurrencyLevel::OneWriteMultiRead, ConcurrencyLevel::MultiWriteMultiRead];
    let micro = ctx.variant == "miri";
    for &level in &levels {
        for (api, api_tm) in [("vm", false), ("tm", true)] {
            let t = format!("conc/{}/{}", level_name(level), api);
            for idx in 0..ctx.n(if micro { 2 } else { 5000 }, 80000) as u64 { ctx.case(&t, "random", idx, |c| conc_case(c, level, api_tm, 0)); }
        }
        let t = format!("conc/{}/vm", level_name(level));
        for idx in 0..ctx.n(if micro { 1 } else { 200 }, 2000) as u64 { ctx.case(&t, "script_two_writers", idx, |c| conc_case(c, level, false, 1)); }
        for idx in 0..ctx.n(if micro { 1 } else { 200 }, 2000) as u64 { ctx.case(&t, "script_min_version", idx, |c| conc_case(c, level, false, 2)); }
        let t = format!("stress/{}", level_name(level));
        for idx in 0..ctx.n(if micro { 1 } else { 16 }, 200) as u64 { ctx.case(&t, "free", idx, |c| stress_case(c, level)); }
    }
    for idx in 0..ctx.n(if micro { 8 } else { 6000 }, 80000) as u64 { ctx.case("lifetime/seq", "managers_alive", idx, |c| lifetime_case(c, false)); }
    // dropping a manager while its tokens are still around: only memory safety is observable -> sanitizer variants decide
    for idx in 0..ctx.n(if micro { 12 } else { 3000 }, 40000) as u64 { ctx.case("lifetime/drop_mgr", "drop_orders", idx, |c| lifetime_case(c, true)); }
}
