//! C20 — string views, orderings and iterators agree with byte-wise semantics.
//! Oracle: the same operation on `&[u8]` / `Vec<String>` / std `str`, and an exact (sign, integer digits, fraction digits)
//! comparison for the numeric comparators. Failures whose root cause is characterised from the input carry an
//! `@predicate` suffix in the oracle class (and the case carries the tag); un-suffixed classes are unexplained.
use crate::ctx::{catch, Case, Ctx, Fail, Res};
use crate::gen;
use crate::rng::Rng;
use std::cmp::Ordering;
use std::collections::{BTreeMap, HashSet};
use std::hash::{Hash, Hasher};
use zipora::containers::{SortableStrVec, ZoSortedStrVec};
use zipora::string::{decimal_strcmp, decimal_strcmp_with_sign, realnum_strcmp, realnum_strcmp_with_sign};
use zipora::string::{FastStr, LexIteratorBuilder, LexicographicIterator, SortedVecLexIterator, StreamingLexIterator};
use zipora::string::{LineProcessor, LineProcessorConfig, LineSplitter};
use zipora::string::{UnicodeProcessor, Utf8ToUtf32Iterator};

fn bad(oracle: &str, d: String) -> Fail { Fail { oracle: oracle.to_string(), detail: d } }

/// Failure accumulator: unexplained failures win over structural ones, which win over input-explained (`@tag`) ones,
/// so a known root cause can never mask a new one inside the same case.
#[derive(Default)]
struct Acc { plain: Option<Fail>, structural: Option<Fail>, explained: Option<Fail> }
impl Acc {
    fn add(&mut self, tag: Option<&str>, oracle: &str, detail: String) {
        match tag {
            None => { if self.plain.is_none() { self.plain = Some(bad(oracle, detail)); } }
            Some(t) => { if self.explained.is_none() { self.explained = Some(bad(&format!("{oracle}@{t}"), detail)); } }
        }
    }
    fn structural(&mut self, oracle: &str, detail: String) { if self.structural.is_none() { self.structural = Some(bad(oracle, detail)); } }
    fn res(self) -> Res { if let Some(f) = self.plain { Err(f) } else if let Some(f) = self.structural { Err(f) } else if let Some(f) = self.explained { Err(f) } else { Ok(()) } }
}

// ---------------------------------------------------------------------------------------------
// generators
// ---------------------------------------------------------------------------------------------
const UCH: &[char] = &['a', 'b', 'Z', '0', '_', ' ', 'é', 'ß', 'İ', 'ǅ', '世', '界', '😀', '\u{7f}', '\u{80}', '\u{7ff}', '\u{800}', '\u{ffff}',
    '\u{10000}', '\u{10ffff}', '\u{a0}', '\u{2003}', '\u{3000}', '\t', '٣', 'Σ', 'ς'];

/// One UTF-8 string without '\n' and without NUL.
fn ustr(r: &mut Rng, mode: u32) -> String {
    match mode % 8 {
        0 => String::new(),
        1 => { let l = r.usize_below(5); (0..l).map(|_| (b'a' + r.below(2) as u8) as char).collect() }
        2 => { let mut s = String::from(*r.pick(&["pre", "prefix", "pre\u{e9}", "x"])); let l = r.usize_below(4); for _ in 0..l { s.push((b'a' + r.below(3) as u8) as char); } s }
        3 => { let l = r.usize_below(13); (0..l).map(|_| (0x20 + r.below(0x5f) as u8) as char).collect() }
        4 => { let l = r.usize_below(7); (0..l).map(|_| *r.pick(UCH)).collect() }
        5 => { let l = 20 + r.usize_below(180); let a = (b'a' + r.below(26) as u8) as char; (0..l).map(|_| if r.chance(1, 9) { 'b' } else { a }).collect() }
        6 => { let l = 1 + r.usize_below(3); (0..l).map(|_| *r.pick(&['\u{7f}', '\u{80}', 'z', '~', '\u{ff}', '\u{100}', '\u{d7ff}', '\u{e000}', '\u{ffff}', '\u{10000}'])).collect() }
        _ => { let l = 1 + r.usize_below(4); (0..l).map(|_| (b'0' + r.below(10) as u8) as char).collect() }
    }
}
const LIST_FAMS: &[&str] = &["nodup", "dups", "empties", "prefixy", "unicode"];
/// List of strings (unsorted) of the given family.
fn str_list(r: &mut Rng, fam: usize, n: usize) -> Vec<String> {
    let mut v: Vec<String> = Vec::with_capacity(n);
    match fam % 5 {
        0 => { let mut seen = HashSet::new(); let mut tries = 0; while v.len() < n && tries < n * 8 { tries += 1; let m = 1 + r.below(7) as u32; let s = ustr(r, m); if seen.insert(s.clone()) { v.push(s); } } }
        1 => { let k = (n / 3).max(1); let base: Vec<String> = (0..k).map(|_| { let m = r.below(8) as u32; ustr(r, m) }).collect(); for _ in 0..n { v.push(r.pick(&base).clone()); } }
        2 => { for _ in 0..n { if r.chance(1, 3) { v.push(String::new()); } else { let m = r.below(8) as u32; v.push(ustr(r, m)); } } }
        3 => { for _ in 0..n { let m = *r.pick(&[1u32, 2, 2, 5]); v.push(ustr(r, m)); } }
        _ => { for _ in 0..n { let m = *r.pick(&[4u32, 6, 6, 4, 3]); v.push(ustr(r, m)); } }
    }
    v
}
fn show_list(v: &[String]) -> String { let mut s = String::new(); for (i, x) in v.iter().enumerate() { if i > 0 { s.push('|'); } s.push_str(&format!("{x:?}")); } s }
fn probes_for(r: &mut Rng, sorted: &[String]) -> Vec<String> {
    let mut p: Vec<String> = vec![String::new(), "\u{10ffff}\u{10ffff}".to_string()];
    for s in sorted.iter().take(40) {
        p.push(s.clone()); p.push(format!("{s}\0")); p.push(format!("{s}a"));
        if let Some((i, _)) = s.char_indices().last() { p.push(s[..i].to_string()); }
    }
    for _ in 0..6 { let m = r.below(8) as u32; p.push(ustr(r, m)); }
    p
}
fn dup_count(sorted: &[String], t: &str) -> usize { sorted.iter().filter(|s| s.as_str() == t).count() }

/// A copy of `b` placed at byte offset `off` inside a fresh allocation (controls alignment of the view).
struct Placed { buf: Vec<u8>, off: usize, len: usize }
impl Placed {
    fn new(b: &[u8], off: usize, fill: u8) -> Placed { let mut buf = vec![fill; off + b.len() + 37]; buf[off..off + b.len()].copy_from_slice(b); Placed { buf, off, len: b.len() } }
    fn s(&self) -> &[u8] { &self.buf[self.off..self.off + self.len] }
}
const OFFS: &[usize] = &[0, 1, 2, 3, 5, 7, 8, 9, 15, 16, 17, 31, 32, 33, 63];

fn pick_blen(r: &mut Rng) -> usize { if r.chance(1, 14) { gen::pick_len(r, 4100) } else { gen::pick_len(r, 300) } }
const RELS: &[&str] = &["equal", "diff_at_k", "prefix", "extension", "unrelated", "sign_boundary", "last_byte", "empty"];
/// Related pair of byte strings.
fn gen_pair(r: &mut Rng, kind: u32, rel: usize) -> (Vec<u8>, Vec<u8>) {
    let len = pick_blen(r); let a = gen::bytes_kind(r, kind, len); let mut b = a.clone();
    match rel % 8 {
        0 => {}
        1 => { if len > 0 { let k = match r.below(4) { 0 => 0, 1 => len - 1, 2 => (*r.pick(&[7usize, 8, 15, 16, 31, 32, 63, 64])).min(len - 1), _ => r.usize_below(len) }; b[k] = b[k].wrapping_add(1 + r.below(255) as u8); } }
        2 => { let k = r.usize_below(len + 1); b.truncate(k); }
        3 => { let n = 1 + r.usize_below(9); for _ in 0..n { b.push(*r.pick(&[0u8, 0, 0xff, 0x80, b'a'])); } }
        4 => { let l2 = pick_blen(r); b = gen::bytes_kind(r, kind, l2); }
        5 => { if len > 0 { let k = r.usize_below(len); let mut a2 = a.clone(); a2[k] = *r.pick(&[0x7fu8, 0x00, 0x01, 0x7e]); b[k] = *r.pick(&[0x80u8, 0xff, 0xfe, 0x81]); return (a2, b); } }
        6 => { if len > 0 { b[len - 1] ^= 1 << r.below(8); } }
        _ => { if r.bool() { return (Vec::new(), b); } else { return (a, Vec::new()); } }
    }
    (a, b)
}

struct Fnv(u64);
impl Hasher for Fnv {
    fn finish(&self) -> u64 { self.0 }
    fn write(&mut self, bytes: &[u8]) { for &b in bytes { self.0 ^= b as u64; self.0 = self.0.wrapping_mul(0x100000001b3); } }
}
fn trait_hash<T: Hash>(t: &T) -> u64 { let mut h = Fnv(0xcbf29ce484222325); t.hash(&mut h); h.finish() }

/// Re-statement of the documented portable hash (8-byte little-endian words, byte tail, final avalanche).
fn model_hash(d: &[u8]) -> u64 {
    fn mix(mut h: u64, w: u64) -> u64 { h = h.wrapping_add(w); h = h.wrapping_mul(0x9e3779b97f4a7c15); h ^= h >> 30; h = h.wrapping_mul(0xbf58476d1ce4e5b9); h ^= h >> 27; h = h.wrapping_mul(0x94d049bb133111eb); h ^= h >> 31; h }
    let mut h = 2134173u64.wrapping_add((d.len() as u64).wrapping_mul(31));
    let mut it = d.chunks_exact(8);
    for ch in &mut it { h = mix(h, u64::from_le_bytes(ch.try_into().unwrap())); }
    let rem = it.remainder();
    if rem.is_empty() { return h; }
    for &b in rem { h = h.wrapping_add(b as u64); h = h.wrapping_mul(0x9e3779b97f4a7c15); h ^= h >> 17; }
    h ^= h >> 33; h = h.wrapping_mul(0xff51afd7ed558ccd); h ^= h >> 33; h = h.wrapping_mul(0xc4ceb9fe1a85ec53); h ^= h >> 33; h
}
fn find_model(h: &[u8], n: &[u8]) -> Option<usize> { if n.is_empty() { return Some(0); } if n.len() > h.len() { return None; } (0..=h.len() - n.len()).find(|&i| &h[i..i + n.len()] == n) }
fn cpl_model(a: &[u8], b: &[u8]) -> usize { a.iter().zip(b.iter()).take_while(|(x, y)| x == y).count() }

// ---------------------------------------------------------------------------------------------
// FastStr
// ---------------------------------------------------------------------------------------------
fn faststr_cmp(c: &mut Case, kind: u32, rel: usize) -> Res {
    let (a, b) = gen_pair(&mut c.rng, kind, rel);
    c.input("a", &a); c.input("b", &b); c.set_nontrivial(!a.is_empty() || !b.is_empty());
    if a.iter().chain(b.iter()).any(|&x| x >= 0x80) { c.note("has_high_byte", 1); }
    let want = a.as_slice().cmp(b.as_slice());
    let (fa, fb) = (FastStr::new(&a), FastStr::new(&b));
    ensure!(fa.cmp(&fb) == want, "cmp", "cmp={:?} want {:?}", fa.cmp(&fb), want);
    ensure!(fb.cmp(&fa) == want.reverse(), "cmp", "reverse cmp={:?} want {:?}", fb.cmp(&fa), want.reverse());
    ensure!(fa.compare(fb) == want, "compare", "compare={:?} want {:?}", fa.compare(fb), want);
    ensure!(fa.partial_cmp(&fb) == Some(want), "partial_cmp", "partial_cmp={:?}", fa.partial_cmp(&fb));
    ensure!((fa == fb) == (a == b), "eq", "eq={} want {}", fa == fb, a == b);
    ensure!((fa != fb) == (a != b), "ne", "ne");
    ensure!((fa < fb) == (a < b) && (fa <= fb) == (a <= b) && (fa > fb) == (a > b) && (fa >= fb) == (a >= b), "rel_ops", "relational operators disagree with slice");
    ensure!(fa.common_prefix_len(fb) == cpl_model(&a, &b), "common_prefix_len", "got {} want {}", fa.common_prefix_len(fb), cpl_model(&a, &b));
    c.ev(8);
    for _ in 0..5 {
        let (oa, ob) = (*c.rng.pick(OFFS), *c.rng.pick(OFFS));
        let (pa, pb) = (Placed::new(&a, oa, 0xAA), Placed::new(&b, ob, 0x55));
        let (ga, gb) = (FastStr::new(pa.s()), FastStr::from(pb.s()));
        ensure!(ga == fa && fa == ga, "eq_across_copies", "copy of a at offset {oa} != a");
        ensure!(ga.cmp(&fa) == Ordering::Equal, "cmp_across_copies", "copy at offset {oa} cmp != Equal");
        ensure!(ga.cmp(&gb) == want && ga.compare(gb) == want, "cmp_across_copies", "offsets {oa},{ob}: {:?} want {:?}", ga.cmp(&gb), want);
        ensure!((ga == gb) == (a == b), "eq_across_copies", "offsets {oa},{ob}: eq={}", ga == gb);
        let raw = unsafe { FastStr::from_raw_parts(pa.s().as_ptr(), pa.s().len()) };
        ensure!(raw == fa && raw.cmp(&fb) == want, "from_raw_parts", "raw view differs");
        c.ev(5);
    }
    // mixed-type equality
    ensure!(fa == a.as_slice() && fa == *a.as_slice(), "eq_bytes", "FastStr != its own bytes");
    ensure!((fa == b.as_slice()) == (a == b), "eq_bytes", "FastStr == other bytes: {}", fa == b.as_slice());
    if let Ok(sb) = std::str::from_utf8(&b) {
        ensure!((fa == sb) == (a == b) && (fa == *sb) == (a == b) && (fa == sb.to_string()) == (a == b), "eq_str", "eq with str/String disagrees");
        ensure!(FastStr::from_string(sb) == fb && FastStr::from(sb) == fb, "from_string", "from_string view differs");
        c.ev(2);
    }
    // sorting a handful of related views
    let mut pool: Vec<Vec<u8>> = vec![a.clone(), b.clone(), Vec::new()];
    for _ in 0..5 { let src = if c.rng.bool() { &a } else { &b }; let k = c.rng.usize_below(src.len() + 1); let mut x = src[..k].to_vec(); if c.rng.bool() { x.push(*c.rng.pick(&[0u8, 0x7f, 0x80, 0xff])); } pool.push(x); }
    let mut fs: Vec<FastStr> = pool.iter().map(|x| FastStr::new(x)).collect(); fs.sort();
    let mut ms: Vec<&[u8]> = pool.iter().map(|x| x.as_slice()).collect(); ms.sort();
    for i in 0..fs.len() { ensure!(fs[i].as_bytes() == ms[i], "sort_order", "sorted position {i} differs"); }
    let (mx, mn) = (fs.iter().max().unwrap(), fs.iter().min().unwrap());
    ensure!(mx.as_bytes() == *ms.last().unwrap() && mn.as_bytes() == ms[0], "min_max", "min/max differ");
    c.ev(fs.len() as u64);
    Ok(())
}

fn faststr_hash(c: &mut Case, kind: u32, rel: usize) -> Res {
    let (a, b) = gen_pair(&mut c.rng, kind, rel);
    c.input("a", &a); c.input("b", &b); c.set_nontrivial(!a.is_empty());
    let fa = FastStr::new(&a); let h0 = fa.hash_fast(); let t0 = trait_hash(&fa);
    ensure!(fa.hash_fast() == h0, "hash_unstable", "two calls differ");
    let mut copies: Vec<Placed> = Vec::new();
    for &o in OFFS { copies.push(Placed::new(&a, o, c.rng.next() as u8)); }
    let boxed: Box<[u8]> = a.clone().into_boxed_slice();
    let mut set: HashSet<FastStr> = HashSet::new(); set.insert(fa);
    for p in &copies {
        let g = FastStr::new(p.s());
        ensure!(g == fa, "eq_across_copies", "copy at offset {} not equal", p.off);
        ensure!(g.hash_fast() == h0, "hash_alignment", "hash_fast differs for equal bytes at offset {}: {:x} vs {:x}", p.off, g.hash_fast(), h0);
        ensure!(trait_hash(&g) == t0, "hash_trait_eq", "Hash differs for equal strings at offset {}", p.off);
        set.insert(g); c.ev(3);
    }
    let gb = FastStr::new(&boxed);
    ensure!(gb.hash_fast() == h0 && trait_hash(&gb) == t0, "hash_allocation", "hash differs for a copy in another allocation");
    set.insert(gb);
    let fb = FastStr::new(&b); let pb = Placed::new(&b, *c.rng.pick(OFFS), 0); set.insert(fb); set.insert(FastStr::new(pb.s()));
    let distinct = if a == b { 1 } else { 2 };
    ensure!(set.len() == distinct, "hashset_distinct", "HashSet of {} copies of a and 2 of b has {} entries, want {}", copies.len() + 2, set.len(), distinct);
    if a == b { ensure!(fb.hash_fast() == h0 && trait_hash(&fb) == t0, "eq_implies_hash_eq", "a==b but hashes differ"); }
    else if fb.hash_fast() == h0 { c.note("hash_collision", 1); }
    ensure!(h0 == model_hash(&a), "hash_model", "hash_fast={:x} portable definition={:x} len={}", h0, model_hash(&a), a.len());
    c.note(&format!("tail{}", a.len() % 8), 1);
    c.ev(5);
    Ok(())
}

fn faststr_search(c: &mut Case, kind: u32) -> Res {
    let len = if c.rng.chance(1, 20) { gen::pick_len(&mut c.rng, 4100) } else { gen::pick_len(&mut c.rng, 400) };
    let hay = gen::bytes_kind(&mut c.rng, kind, len);
    c.input("hay", &hay); c.set_nontrivial(len >= 2);
    let ph = Placed::new(&hay, *c.rng.pick(OFFS), 0xEE); let fh = FastStr::new(ph.s());
    let mut needles: Vec<Vec<u8>> = vec![Vec::new(), hay.clone()];
    { let mut x = hay.clone(); x.push(0); needles.push(x); }
    for _ in 0..12 {
        let n = if len == 0 { c.rng.bytes(1) } else {
            let i = c.rng.usize_below(len); let maxl = if len > 1000 { 24 } else { len - i }; let l = 1 + c.rng.usize_below(maxl.min(len - i));
            let mut n = hay[i..i + l].to_vec();
            match c.rng.below(5) { 0 => { let k = c.rng.usize_below(n.len()); n[k] = n[k].wrapping_add(1 + c.rng.below(255) as u8); } 1 => { n = hay[..l].to_vec(); } 2 => { n = hay[len - l..].to_vec(); } _ => {} }
            n };
        needles.push(n);
    }
    for n in &needles {
        let pn = Placed::new(n, *c.rng.pick(OFFS), 0x11); let fnd = FastStr::new(pn.s());
        let got = fh.find(fnd); let want = find_model(&hay, n);
        ensure!(got == want, "find", "find(needle len {})={:?} want {:?} (hay len {})", n.len(), got, want, len);
        let sw = hay.len() >= n.len() && &hay[..n.len()] == n.as_slice(); let ew = hay.len() >= n.len() && &hay[len - n.len()..] == n.as_slice();
        ensure!(fh.starts_with(fnd) == sw, "starts_with", "starts_with(len {})={} want {}", n.len(), fh.starts_with(fnd), sw);
        ensure!(fh.ends_with(fnd) == ew, "ends_with", "ends_with(len {})={} want {}", n.len(), fh.ends_with(fnd), ew);
        c.ev(3);
    }
    let mut bytes: Vec<u8> = vec![0, 0x7f, 0x80, 0xff]; for _ in 0..8 { if len > 0 { bytes.push(hay[c.rng.usize_below(len)]); } bytes.push(c.rng.next() as u8); }
    for &b in &bytes {
        let want = hay.iter().position(|&x| x == b);
        ensure!(fh.find_byte(b) == want, "find_byte", "find_byte({b:#x})={:?} want {:?}", fh.find_byte(b), want);
        ensure!(fh.find_byte_optimized(b) == want, "find_byte_optimized", "find_byte_optimized({b:#x})={:?} want {:?}", fh.find_byte_optimized(b), want);
        ensure!(fh.find(FastStr::new(&[b])) == want, "find", "find(single byte {b:#x})");
        c.ev(3);
    }
    Ok(())
}

fn split_model(a: &[u8], d: u8) -> Vec<Vec<u8>> { let mut v: Vec<Vec<u8>> = a.split(|&x| x == d).map(|p| p.to_vec()).collect(); if v.last().map_or(false, |l| l.is_empty()) { v.pop(); } v }

fn faststr_slice(c: &mut Case, kind: u32) -> Res {
    let len = gen::pick_len(&mut c.rng, 300); let a = gen::bytes_kind(&mut c.rng, kind, len);
    c.input("a", &a); c.set_nontrivial(len >= 1);
    let pa = Placed::new(&a, *c.rng.pick(OFFS), 0x33); let f = FastStr::new(pa.s()); let n = len;
    ensure!(f.len() == n && f.is_empty() == a.is_empty() && f.as_bytes() == a.as_slice() && f.as_ref() as &[u8] == a.as_slice(), "view", "len/as_bytes differ");
    ensure!(f.as_ptr() == pa.s().as_ptr(), "view", "as_ptr differs");
    ensure!(f.as_str() == std::str::from_utf8(&a).ok(), "as_str", "as_str differs from from_utf8");
    ensure!(f.into_string() == String::from_utf8_lossy(&a) && f.to_cow_str() == String::from_utf8_lossy(&a), "into_string", "lossy conversion differs");
    c.ev(4);
    let pts: Vec<usize> = { let mut p = vec![0, 1, n / 2, n.saturating_sub(1), n, n + 1, n + 7, usize::MAX]; for _ in 0..6 { p.push(c.rng.usize_below(n + 3)); } p };
    for &s in &pts {
        let w = &a[s.min(n)..];
        ensure!(f.substring_from(s).as_bytes() == w, "substring_from", "substring_from({s}) len {} want {}", f.substring_from(s).len(), w.len());
        ensure!(f.prefix(s).as_bytes() == &a[..s.min(n)], "prefix", "prefix({s})");
        ensure!(f.suffix(s).as_bytes() == &a[n - s.min(n)..], "suffix", "suffix({s})");
        ensure!(f.get_byte(s) == a.get(s).copied(), "get_byte", "get_byte({s})={:?}", f.get_byte(s));
        c.ev(4);
        for &l in &pts {
            if s <= n {
                let e = s.saturating_add(l).min(n);
                let got = catch(|| f.substring(s, l)).map_err(|p| bad("substring_panic", format!("substring({s},{l}) on len {n} panicked at {}: {}", p.loc, p.msg)))?;
                ensure!(got.as_bytes() == &a[s..e], "substring", "substring({s},{l}) len {} want {}", got.len(), e - s); c.ev(1);
            } else if s == n + 1 && l == 0 && catch(|| f.substring(s, l).len()).is_err() { c.note("substring_start_gt_len_panics", 1); } // like &a[s..]: out of contract, only recorded
        }
    }
    if n > 0 { let i = c.rng.usize_below(n); ensure!(unsafe { f.get_byte_unchecked(i) } == a[i], "get_byte_unchecked", "index {i}"); }
    let mut ds: Vec<u8> = vec![0, b',', 0xff]; if n > 0 { ds.push(a[0]); ds.push(a[n - 1]); ds.push(a[c.rng.usize_below(n)]); }
    for &d in &ds {
        let got: Vec<Vec<u8>> = f.split(d).map(|p| p.as_bytes().to_vec()).collect(); let want = split_model(&a, d);
        ensure!(got == want, "split", "split({d:#x}) gave {} parts want {}", got.len(), want.len()); c.ev(1);
    }
    Ok(())
}

// ---------------------------------------------------------------------------------------------
// numeric comparators
// ---------------------------------------------------------------------------------------------
#[derive(Clone, Copy, PartialEq, Debug)]
enum Validity { Valid, Invalid, Unspec }
/// Harness-side reading of one numeric string: grammar `[+-]? digits ( '.' digits )?`; `5.` / `.5` are accepted by some
/// grammars and not by others, so their validity is left unspecified (if the library answers, the answer must be by value).
#[derive(Clone, Debug)]
struct Parsed { v: Validity, neg_w: bool, body: String, int_c: String, frac_c: String, int_noncanon: bool, frac_noncanon: bool, lone_dot: bool }
impl Parsed { fn is_zero(&self) -> bool { self.int_c == "0" && self.frac_c.is_empty() } }
fn parse_num(s: &str, real: bool) -> Parsed {
    let mut p = Parsed { v: Validity::Invalid, neg_w: false, body: String::new(), int_c: String::new(), frac_c: String::new(), int_noncanon: false, frac_noncanon: false, lone_dot: false };
    let b = s.as_bytes(); if b.is_empty() { return p; }
    let body = match b[0] { b'+' => &s[1..], b'-' => { p.neg_w = true; &s[1..] } _ => s };
    p.body = body.to_string();
    if body.is_empty() { return p; }
    let dots = body.bytes().filter(|&x| x == b'.').count(); let digits = body.bytes().filter(|x| x.is_ascii_digit()).count();
    if digits + dots != body.len() || dots > 1 || (!real && dots > 0) { return p; }
    if digits == 0 { p.lone_dot = true; return p; }
    let (iw, fw) = match body.find('.') { Some(i) => (&body[..i], Some(&body[i + 1..])), None => (body, None) };
    p.v = if fw.is_some() && (iw.is_empty() || fw.unwrap().is_empty()) { Validity::Unspec } else { Validity::Valid };
    let ic = iw.trim_start_matches('0'); p.int_c = if ic.is_empty() { "0".to_string() } else { ic.to_string() };
    p.frac_c = fw.unwrap_or("").trim_end_matches('0').to_string();
    p.int_noncanon = iw.is_empty() || (iw.len() > 1 && iw.starts_with('0'));
    p.frac_noncanon = fw.map_or(false, |f| f.is_empty() || f.ends_with('0'));
    p
}
/// Exact comparison by value (no arithmetic: integer digits by length then lexicographic, fraction lexicographic).
fn value_cmp(a: &Parsed, b: &Parsed) -> Ordering {
    let (an, bn) = (a.neg_w && !a.is_zero(), b.neg_w && !b.is_zero());
    match (an, bn) { (true, false) => return Ordering::Less, (false, true) => return Ordering::Greater, _ => {} }
    let m = a.int_c.len().cmp(&b.int_c.len()).then_with(|| a.int_c.cmp(&b.int_c)).then_with(|| a.frac_c.cmp(&b.frac_c));
    if an { m.reverse() } else { m }
}
fn rand_digits(r: &mut Rng, len: usize) -> String { (0..len).map(|i| if i == 0 { (b'1' + r.below(9) as u8) as char } else { (b'0' + r.below(10) as u8) as char }).collect() }
/// Canonical magnitudes that are close to each other (same prefixes, length changes, equal values).
fn magnitudes(r: &mut Rng, real: bool) -> Vec<(String, String)> {
    let l = match r.below(4) { 0 => 1, 1 => 1 + r.usize_below(4), 2 => 15 + r.usize_below(8), _ => 1 + r.usize_below(30) };
    let d = rand_digits(r, l); let mut ints: Vec<String> = vec![d.clone(), "0".to_string(), format!("{d}0"), "9".repeat(l), format!("1{}", "0".repeat(l))];
    if l > 1 { ints.push(d[..l - 1].to_string()); }
    { let mut x = d.clone().into_bytes(); let k = r.usize_below(l); if !(k == 0 && x[k] == b'9') { x[k] = if x[k] == b'9' { b'8' } else { x[k] + 1 }; } ints.push(String::from_utf8(x).unwrap()); }
    let mut fracs: Vec<String> = vec![String::new()];
    if real {
        let fl = 1 + r.usize_below(6); let mut f = rand_digits(r, fl); if f.ends_with('0') { f.pop(); f.push('5'); }
        fracs.push(f.clone()); fracs.push(format!("{f}1")); fracs.push(format!("0{f}")); fracs.push("5".into()); fracs.push("05".into()); fracs.push("45".into());
    }
    let mut out = Vec::new();
    for _ in 0..5 { out.push((r.pick(&ints).clone(), r.pick(&fracs).clone())); }
    out
}
const NUM_FAMS: &[&str] = &["canon", "lead0", "negzero", "trail0", "dotedge", "mixed"];
fn write_num(r: &mut Rng, m: &(String, String), fam: usize, real: bool) -> String {
    let mixed = fam == 5; let zero = m.0 == "0" && m.1.is_empty();
    let mut int = m.0.clone(); let mut frac = m.1.clone(); let mut dot = !frac.is_empty();
    if (fam == 1 || mixed) && r.chance(2, 3) { int = format!("{}{}", "0".repeat(1 + r.usize_below(4)), int); }
    if real && (fam == 3 || mixed) && r.chance(2, 3) { frac.push_str(&"0".repeat(1 + r.usize_below(3))); dot = true; }
    if real && (fam == 4 || (mixed && r.chance(1, 4))) { if int == "0" && !frac.is_empty() && r.bool() { int.clear(); } else if frac.is_empty() && r.bool() { dot = true; } }
    let neg = if zero { (fam == 2 || mixed) && r.chance(1, 2) } else { r.chance(1, 3) };
    let sign = if neg { "-" } else if r.chance(1, 4) { "+" } else { "" };
    if dot { format!("{sign}{int}.{frac}") } else { format!("{sign}{int}") }
}
const INVALID: &[&str] = &["", "+", "-", ".", "+.", "-.", "--1", "+-1", "-+1", "1-", "1+1", "1..2", "1.2.3", "..", " 1", "1 ", "1e5", "0x10", "abc", "1,000",
    "١٢٣", "１２", "1_000", "NaN", "inf", "-inf", "1\n", "\t1", "1\0", "-", "+ 1", "1.5", "-.5.", "0-", "²"];
fn num_pool(r: &mut Rng, real: bool, fam: usize, invalid: bool) -> Vec<String> {
    let mags = magnitudes(r, real); let n = 8 + r.usize_below(5); let mut v: Vec<String> = Vec::new();
    let f = if invalid { 0 } else { fam }; // invalid pools: canonical valid strings + non-numbers, so `held` means every non-number was rejected
    for _ in 0..n { let m = r.pick(&mags).clone(); v.push(write_num(r, &m, f, real)); }
    if fam == 2 { v.push("0".into()); v.push(if real { "-0.0".into() } else { "-0".into() }); }
    if invalid {
        v.truncate(6);
        for _ in 0..4 { v.push(r.pick(INVALID).to_string()); }
        for _ in 0..3 { let base = v[r.usize_below(6)].clone(); let mut cs: Vec<char> = base.chars().collect(); let k = r.usize_below(cs.len() + 1); cs.insert(k, *r.pick(&[' ', 'a', 'e', '-', '+', '.', ',', '\0', '٣', '１', '\n'])); v.push(cs.into_iter().collect()); }
    }
    r.shuffle(&mut v); v
}
fn pair_tag(a: &Parsed, b: &Parsed, real: bool) -> Option<&'static str> {
    if a.neg_w != b.neg_w && a.is_zero() && b.is_zero() { return Some("neg_zero"); }
    if real && (a.int_noncanon || b.int_noncanon) { return Some("noncanon_int"); }
    if real && (a.frac_noncanon || b.frac_noncanon) { return Some("noncanon_frac"); }
    None
}
/// which: 0 decimal_strcmp, 1 decimal_strcmp_with_sign, 2 realnum_strcmp, 3 realnum_strcmp_with_sign
fn num_check(c: &mut Case, which: u32, fam: usize, invalid: bool) -> Res {
    let pool = num_pool(&mut c.rng, which >= 2, fam, invalid);
    num_check_pool(c, which, pool)
}
fn num_check_pool(c: &mut Case, which: u32, mut pool: Vec<String>) -> Res {
    let real = which >= 2; let with_sign = which % 2 == 1;
    let mut ps: Vec<Parsed> = pool.iter().map(|s| parse_num(s, real)).collect();
    if with_sign { // precondition: sign already parsed, body made of digits (and at most one dot)
        let keep: Vec<bool> = ps.iter().map(|p| p.v != Validity::Invalid).collect();
        let mut i = 0; pool.retain(|_| { i += 1; keep[i - 1] }); ps.retain(|p| p.v != Validity::Invalid);
    }
    c.input_str("pool", &show_list(&pool)); c.set_nontrivial(pool.len() >= 2);
    let n = pool.len(); let mut acc = Acc::default();
    let mut m: Vec<Vec<Option<Ordering>>> = vec![vec![None; n]; n];
    for i in 0..n { for j in 0..n {
        let (a, b) = (&ps[i], &ps[j]);
        let r = catch(|| match which { 0 => decimal_strcmp(&pool[i], &pool[j]), 1 => Some(decimal_strcmp_with_sign(&a.body, a.neg_w, &b.body, b.neg_w)), 2 => realnum_strcmp(&pool[i], &pool[j]), _ => Some(realnum_strcmp_with_sign(&a.body, a.neg_w, &b.body, b.neg_w)) });
        let r = match r { Ok(r) => r, Err(p) => { acc.add(None, "panic", format!("compare({:?},{:?}) panicked at {}: {}", pool[i], pool[j], p.loc, p.msg)); continue; } };
        m[i][j] = r; c.ev(1);
        let tag = pair_tag(a, b, real);
        if let Some(t) = tag { c.tag(t); }
        if a.v == Validity::Invalid || b.v == Validity::Invalid {
            let ld = (a.v == Validity::Invalid && a.lone_dot) || (b.v == Validity::Invalid && b.lone_dot);
            let other_bad = (a.v == Validity::Invalid && !a.lone_dot) || (b.v == Validity::Invalid && !b.lone_dot);
            if ld { c.tag("lone_dot"); }
            if r.is_some() { acc.add(if ld && !other_bad { Some("lone_dot") } else { None }, "accepts_invalid", format!("compare({:?},{:?})={:?}, an operand is not a number", pool[i], pool[j], r)); }
            c.note("invalid_pairs", 1);
            continue;
        }
        let want = value_cmp(a, b);
        let unspec = a.v == Validity::Unspec || b.v == Validity::Unspec;
        match r {
            None => { if !unspec { acc.add(None, "rejects_valid", format!("compare({:?},{:?})=None", pool[i], pool[j])); } }
            Some(g) if g == want => { if want == Ordering::Equal && i != j && pool[i] != pool[j] { c.note("equal_value_diff_spelling_ok", 1); } }
            Some(g) => { acc.add(tag, if want == Ordering::Equal { "equal_value_not_equal" } else { "value_order" }, format!("compare({:?},{:?})={:?} want {:?}", pool[i], pool[j], g, want)); }
        }
    } }
    // order axioms on the library's own answers (valid operands only)
    let ok: Vec<usize> = (0..n).filter(|&i| ps[i].v != Validity::Invalid).collect();
    for &i in &ok {
        if let Some(g) = m[i][i] { if g != Ordering::Equal { acc.structural("reflexive", format!("compare({0:?},{0:?})={1:?}", pool[i], g)); } }
        for &j in &ok { if let (Some(x), Some(y)) = (m[i][j], m[j][i]) { c.ev(1); if x != y.reverse() { acc.structural("antisymmetry", format!("compare({:?},{:?})={:?} but reverse={:?}", pool[i], pool[j], x, y)); } } }
    }
    let mut triples = 0u64;
    for &i in &ok { for &j in &ok { let Some(x) = m[i][j] else { continue }; if x == Ordering::Greater { continue; }
        for &k in &ok { let (Some(y), Some(z)) = (m[j][k], m[i][k]) else { continue }; if y == Ordering::Greater { continue; } triples += 1;
            let want_strict = x == Ordering::Less || y == Ordering::Less;
            if z == Ordering::Greater || (want_strict && z != Ordering::Less) || (!want_strict && z != Ordering::Equal) {
                acc.structural("transitivity", format!("{:?} {:?} {:?} {:?} {:?} but first vs third = {:?}", pool[i], x, pool[j], y, pool[k], z)); } } } }
    c.ev(triples); c.note("triples", triples);
    acc.res()
}

// ---------------------------------------------------------------------------------------------
// lexicographic iterators
// ---------------------------------------------------------------------------------------------
fn zerr<E: std::fmt::Display>(what: &str) -> impl Fn(E) -> Fail + '_ { move |e| bad("unexpected_err", format!("{what}: {e}")) }

/// index the iterator is positioned at (n = at end); consumes the position.
fn lex_pos(it: &mut SortedVecLexIterator, n: usize) -> Result<usize, Fail> {
    if it.current().is_none() { return Ok(n); }
    let mut k = 1; while it.next().map_err(zerr("next"))? { k += 1; if k > n + 1 { return Err(bad("enumerate_forward", "next() yields more strings than exist".into())); } }
    Ok(n - k.min(n))
}
fn lex_sortedvec(c: &mut Case, fam: usize) -> Res {
    let n = if c.rng.chance(1, 8) { c.rng.usize_below(3) } else { 2 + c.rng.usize_below(40) };
    let mut v = str_list(&mut c.rng, fam, n); v.sort(); let n = v.len();
    c.input_str("sorted", &show_list(&v)); c.set_nontrivial(n >= 2);
    if v.windows(2).any(|w| w[0] == w[1]) { c.tag("has_dups"); } if v.iter().any(|s| s.is_empty()) { c.tag("has_empty"); }
    let mut acc = Acc::default();
    let mut it = if c.rng.bool() { SortedVecLexIterator::new(&v) } else { LexIteratorBuilder::new().optimize_for_memory(c.rng.bool()).build_sorted_vec(&v) };
    ensure!(it.size_hint() == Some(n), "size_hint", "size_hint={:?} want {n}", it.size_hint());
    ensure!(it.is_at_start() == (n > 0) && it.is_at_end() == (n == 0), "initial_position", "is_at_start={} is_at_end={}", it.is_at_start(), it.is_at_end());
    // forward enumeration
    let mut fwd: Vec<String> = Vec::new();
    while let Some(s) = it.current() { fwd.push(s.to_string()); if fwd.len() > n + 1 { break; } if !it.next().map_err(zerr("next"))? { break; } }
    ensure!(fwd == v, "enumerate_forward", "forward enumeration gave {} strings: {} want {}", fwd.len(), show_list(&fwd), show_list(&v));
    ensure!(it.is_at_end() && it.current().is_none(), "end_state", "not at end after exhausting");
    c.ev(n as u64);
    // backward enumeration
    let ok = it.seek_end().map_err(zerr("seek_end"))?; ensure!(ok == (n > 0), "seek_end", "seek_end returned {ok}");
    let mut bwd: Vec<String> = Vec::new();
    while let Some(s) = it.current() { bwd.push(s.to_string()); if bwd.len() > n + 1 { break; } if !it.prev().map_err(zerr("prev"))? { break; } }
    bwd.reverse(); ensure!(bwd == v, "enumerate_backward", "backward enumeration gave {}", show_list(&bwd));
    let ok = it.seek_start().map_err(zerr("seek_start"))?; ensure!(ok == (n > 0) && it.current() == v.first().map(|s| s.as_str()), "seek_start", "seek_start");
    c.ev(n as u64);
    let all = zipora::string::utils::lex_utils::collect_all(SortedVecLexIterator::new(&v)).map_err(zerr("collect_all"))?;
    ensure!(all == v, "collect_all", "collect_all gave {}", show_list(&all));
    // seeks
    for t in probes_for(&mut c.rng, &v) {
        let lb = v.partition_point(|s| s.as_str() < t.as_str()); let ub = v.partition_point(|s| s.as_str() <= t.as_str());
        let dup = if dup_count(&v, &t) >= 2 { c.tag("dup_target"); Some("dup_target") } else { None };
        let exact = it.seek_lower_bound(&t).map_err(zerr("seek_lower_bound"))?;
        let cur = it.current().map(|s| s.to_string()); let pos = lex_pos(&mut it, n)?;
        if exact != (lb < n && v[lb] == t) { acc.add(None, "seek_lower_bound_exact", format!("seek_lower_bound({t:?}) returned {exact}")); }
        if pos != lb { acc.add(dup, "seek_lower_bound_pos", format!("seek_lower_bound({t:?}) positioned at index {pos} ({cur:?}), first string >= target is index {lb}; list {}", show_list(&v))); }
        else if cur.as_deref() != v.get(lb).map(|s| s.as_str()) { acc.add(None, "seek_lower_bound_current", format!("current()={cur:?} at index {lb}")); }
        let r = it.seek_upper_bound(&t).map_err(zerr("seek_upper_bound"))?; let cur = it.current().map(|s| s.to_string()); let pos = lex_pos(&mut it, n)?;
        if r { acc.add(None, "seek_upper_bound_ret", format!("seek_upper_bound({t:?}) returned true")); }
        if pos != ub { acc.add(dup, "seek_upper_bound_pos", format!("seek_upper_bound({t:?}) positioned at index {pos} ({cur:?}), first string > target is index {ub}; list {}", show_list(&v))); }
        let cnt = zipora::string::utils::lex_utils::count_with_prefix(SortedVecLexIterator::new(&v), &t).map_err(zerr("count_with_prefix"))?;
        let want = v.iter().filter(|s| s.starts_with(t.as_str())).count();
        if cnt != want { acc.add(dup, "count_with_prefix", format!("count_with_prefix({t:?})={cnt} want {want}; list {}", show_list(&v))); }
        c.ev(4);
    }
    let cp = zipora::string::utils::lex_utils::find_common_prefix(SortedVecLexIterator::new(&v)).map_err(zerr("find_common_prefix"))?;
    let want: String = match v.first() { None => String::new(), Some(f) => { let mut k = f.chars().count(); for s in &v { k = k.min(f.chars().zip(s.chars()).take_while(|(a, b)| a == b).count()); } f.chars().take(k).collect() } };
    if cp != want { acc.add(None, "common_prefix", format!("find_common_prefix={cp:?} want {want:?}")); }
    acc.res()
}

struct Chunky { data: Vec<u8>, pos: usize, step: usize }
impl std::io::Read for Chunky {
    fn read(&mut self, buf: &mut [u8]) -> std::io::Result<usize> { let n = self.step.min(buf.len()).min(self.data.len() - self.pos); buf[..n].copy_from_slice(&self.data[self.pos..self.pos + n]); self.pos += n; Ok(n) }
}
const TEXT_FAMS: &[&str] = &["lf", "crlf", "mixed_cr", "nofinal", "blank_ws"];
/// Text made of lines with the given ending style; returns the text.
fn gen_text(r: &mut Rng, fam: usize, sorted: bool) -> String {
    let n = if r.chance(1, 10) { r.usize_below(2) } else { 1 + r.usize_below(14) };
    let mut lines: Vec<String> = (0..n).map(|_| {
        let m = if fam == 4 { *r.pick(&[0u32, 0, 3, 4]) } else { r.below(8) as u32 };
        let mut s = if fam == 4 && r.chance(1, 3) { (*r.pick(&[" ", "  ", "\t", " \t ", "\u{a0}", "\u{3000} "])).to_string() } else { ustr(r, m) };
        if fam == 4 && r.chance(1, 4) { s = format!(" {s}\t"); }
        if fam == 2 && r.chance(1, 4) { let cs: Vec<char> = s.chars().collect(); let k = r.usize_below(cs.len() + 1); let mut t: String = cs[..k].iter().collect(); t.push('\r'); t.extend(cs[k..].iter()); s = t; }
        s }).collect();
    if sorted { lines.sort(); }
    let mut t = String::new();
    for (i, l) in lines.iter().enumerate() {
        t.push_str(l);
        let last = i + 1 == lines.len();
        if last && (fam == 3 || r.chance(1, 5)) { break; }
        t.push_str(match fam { 0 => "\n", 1 => "\r\n", _ => if r.bool() { "\n" } else { "\r\n" } });
    }
    t
}
/// (line without ending, raw line with ending) — `str::lines` semantics: "\n" and "\r\n" terminate, a bare '\r' does not.
fn model_lines(text: &str) -> Vec<(String, String)> {
    let v: Vec<(String, String)> = text.split_inclusive('\n').map(|raw| { let mut s = raw; if s.ends_with('\n') { s = &s[..s.len() - 1]; if s.ends_with('\r') { s = &s[..s.len() - 1]; } } (s.to_string(), raw.to_string()) }).collect();
    debug_assert!(v.iter().map(|x| x.0.as_str()).eq(text.lines()));
    v
}
fn lex_streaming(c: &mut Case, fam: usize) -> Res { let text = gen_text(&mut c.rng, fam, true); lex_streaming_run(c, text) }
fn lex_streaming_run(c: &mut Case, text: String) -> Res {
    let want: Vec<String> = model_lines(&text).into_iter().map(|x| x.0).collect();
    let step = *c.rng.pick(&[1usize, 2, 3, 7, 64, 1 << 20]);
    c.input_str("text", &format!("{text:?}")); c.input_str("read_step", &step.to_string()); c.set_nontrivial(want.len() >= 2);
    if want.iter().any(|s| s.is_empty()) { c.tag("empty_line"); }
    let rd = Chunky { data: text.clone().into_bytes(), pos: 0, step };
    let mut it = if c.rng.bool() { StreamingLexIterator::new(rd) } else { LexIteratorBuilder::new().buffer_size(*c.rng.pick(&[1usize, 16, 8192])).build_streaming(rd) };
    ensure!(it.current().is_none(), "initial_position", "current() before the first next() = {:?}", it.current());
    let mut got: Vec<Option<String>> = Vec::new();
    loop { match it.next() { Ok(true) => got.push(it.current().map(|s| s.to_string())), Ok(false) => break, Err(e) => return Err(bad("unexpected_err", format!("next: {e}"))) } if got.len() > want.len() + 2 { break; } }
    ensure!(got.len() == want.len(), "line_count", "next() succeeded {} times, text has {} lines", got.len(), want.len());
    ensure!(it.is_at_end() && it.current().is_none(), "end_state", "not at end after exhausting the stream");
    let mut acc = Acc::default();
    for (i, w) in want.iter().enumerate() { c.ev(1);
        match &got[i] { Some(g) if g == w => {}
            None if w.is_empty() => acc.add(Some("empty_line"), "current_none_after_next", format!("line {i} is the empty string: next() returned true but current() is None (the string is skipped by any current()-driven enumeration)")),
            g => acc.add(None, "line_content", format!("line {i}: got {g:?} want {w:?}")) } }
    for (name, r) in [("prev", it.prev()), ("seek_start", it.seek_start()), ("seek_end", it.seek_end()), ("seek_lower_bound", it.seek_lower_bound("a"))] { if r.is_ok() { acc.add(None, "unsupported_op_ok", format!("{name} returned Ok on a stream")); } }
    acc.res()
}

// ---------------------------------------------------------------------------------------------
// sorted string vectors
// ---------------------------------------------------------------------------------------------
fn bsearch_check(acc: &mut Acc, sorted: &[String], t: &str, r: Result<usize, usize>, what: &str) {
    match r {
        Ok(i) => { if sorted.get(i).map(|s| s.as_str()) != Some(t) { acc.add(None, "binary_search_ok", format!("{what}({t:?})=Ok({i}) but sorted[{i}]={:?}", sorted.get(i))); } }
        Err(i) => { let lb = sorted.partition_point(|s| s.as_str() < t);
            if lb < sorted.len() && sorted[lb] == t { acc.add(None, "binary_search_miss", format!("{what}({t:?})=Err({i}) but it is present at {lb}")); }
            else if i != lb { acc.add(None, "binary_search_insertion_point", format!("{what}({t:?})=Err({i}) want Err({lb})")); } }
    }
}
/// mode: 0 sort_lexicographic/sort, 1 radix_sort, 2 sort_by_length, 3 sort_by(custom), 4 large (block binary search)
fn sortable_check(c: &mut Case, mode: u32, fam: usize) -> Res {
    let n = match mode { 4 => 513 + c.rng.usize_below(900), 1 => if c.rng.bool() { 33 + c.rng.usize_below(260) } else { c.rng.usize_below(40) }, _ => if c.rng.chance(1, 8) { c.rng.usize_below(3) } else { 2 + c.rng.usize_below(70) } };
    let list = str_list(&mut c.rng, fam, n);
    sortable_run(c, mode, list)
}
fn sortable_run(c: &mut Case, mode: u32, list: Vec<String>) -> Res {
    let n = list.len();
    c.input_str("list", &show_list(&list)); c.set_nontrivial(n >= 2);
    let mut v = match c.rng.below(3) { 0 => SortableStrVec::new(), 1 => SortableStrVec::with_capacity(c.rng.usize_below(2 * n + 1)), _ => SortableStrVec::from_iter(list[..n / 2].iter()).map_err(zerr("from_iter"))? };
    for (i, s) in list.iter().enumerate().skip(v.len()) { let id = if c.rng.bool() { v.push_str(s) } else { v.push(s.clone()) }.map_err(zerr("push"))?; ensure!(id == i, "push_id", "push returned id {id} want {i}"); }
    ensure!(v.len() == n && v.is_empty() == (n == 0), "len", "len={} want {n}", v.len());
    for i in 0..n { ensure!(v.get(i) == Some(list[i].as_str()) && v.get_by_id(i) == Some(list[i].as_str()), "get", "get({i})={:?} want {:?}", v.get(i), list[i]); }
    ensure!(v.get(n).is_none(), "get_oob", "get(len) is Some"); ensure!(v.iter().eq(list.iter().map(|s| s.as_str())), "iter_insertion_order", "iter() differs from insertion order");
    ensure!(v.get_sorted(0).is_none(), "get_sorted_unsorted", "get_sorted before any sort returned Some");
    c.ev(2 * n as u64);
    let mut acc = Acc::default();
    let rounds = if mode == 4 { 1 } else { 2 };
    let mut model = list.clone();
    for round in 0..rounds {
        if round == 1 { for _ in 0..1 + c.rng.usize_below(4) { let m = c.rng.below(8) as u32; let s = if c.rng.bool() && !model.is_empty() { c.rng.pick(&model).clone() } else { ustr(&mut c.rng, m) }; v.push_str(&s).map_err(zerr("push"))?; model.push(s); }
            ensure!(v.iter_sorted().next().is_none() || v.get_sorted(0).is_none(), "stale_sorted_view", "sorted view still served after push"); }
        let n = model.len(); let mut want = model.clone();
        let custom = c.rng.below(2);
        match mode {
            0 | 4 => { if c.rng.bool() { v.sort_lexicographic() } else { v.sort() }.map_err(zerr("sort"))?; want.sort(); }
            1 => { v.radix_sort().map_err(zerr("radix_sort"))?; want.sort(); }
            2 => { v.sort_by_length().map_err(zerr("sort_by_length"))?; want.sort_by_key(|s| s.len()); }
            _ => { if custom == 0 { v.sort_by(|a, b| b.cmp(a)).map_err(zerr("sort_by"))?; want.sort_by(|a, b| b.cmp(a)); } else { v.sort_by(|a, b| a.len().cmp(&b.len()).then_with(|| a.cmp(b))).map_err(zerr("sort_by"))?; want.sort_by(|a, b| a.len().cmp(&b.len()).then_with(|| a.cmp(b))); } }
        }
        let got: Vec<String> = v.iter_sorted().map(|s| s.to_string()).collect();
        ensure!(got.len() == n, "sorted_len", "iter_sorted yields {} strings, vector has {n}", got.len());
        if mode == 2 {
            ensure!(got.windows(2).all(|w| w[0].len() <= w[1].len()), "sorted_order", "sort_by_length: lengths not ascending: {}", show_list(&got));
            let (mut a, mut b) = (got.clone(), want.clone()); a.sort(); b.sort(); ensure!(a == b, "sorted_multiset", "sorted view is not a permutation of the input (skip/repeat)");
        } else { ensure!(got == want, "sorted_order", "sorted view {} want {}", show_list(&got), show_list(&want)); }
        for i in 0..n { ensure!(v.get_sorted(i) == Some(got[i].as_str()), "get_sorted", "get_sorted({i}) differs from iter_sorted"); }
        ensure!(v.get_sorted(n).is_none(), "get_sorted_oob", "get_sorted(len) is Some");
        for i in 0..n { ensure!(v.get(i) == Some(model[i].as_str()), "get_after_sort", "insertion-order get({i}) changed by sorting"); }
        c.ev(3 * n as u64);
        if matches!(mode, 0 | 1 | 4) {
            let mut ps = probes_for(&mut c.rng, &want); if mode == 4 || n > 4096 { for _ in 0..150 { ps.push(c.rng.pick(&want).clone()); } for k in (0..n).step_by(64) { ps.push(want[k].clone()); if k > 0 { ps.push(want[k - 1].clone()); } } }
            for t in ps { let r = v.binary_search(&t); bsearch_check(&mut acc, &want, &t, r, "binary_search"); c.ev(1); }
            c.note(if n > 512 { "bsearch_block_path" } else { "bsearch_std_path" }, 1);
        }
    }
    let cl = v.clone(); ensure!(cl.len() == v.len() && cl.iter().eq(v.iter()) && cl.iter_sorted().eq(v.iter_sorted()), "clone", "clone differs");
    v.clear(); ensure!(v.len() == 0 && v.iter().next().is_none() && v.iter_sorted().next().is_none(), "clear", "not empty after clear");
    v.push_str("x").map_err(zerr("push"))?; ensure!(v.get(0) == Some("x"), "reuse_after_clear", "get(0) after clear+push");
    acc.res()
}
fn sortable_huge(c: &mut Case, len: usize) -> Res {
    c.input_str("len", &len.to_string()); c.set_nontrivial(true); if len >= (1 << 20) { c.tag("len_ge_2pow20"); }
    let tag = if len >= (1 << 20) { Some("len_ge_2pow20") } else { None };
    let s: String = (0..len).map(|i| (b'a' + (i % 23) as u8) as char).collect();
    let mut v = SortableStrVec::new(); v.push_str("first").map_err(zerr("push"))?;
    let mut acc = Acc::default();
    match catch(|| v.push_str(&s)) { Err(p) => acc.add(tag, "panic", format!("push_str(len {len}) panicked at {}: {}", p.loc, p.msg)), Ok(Err(_)) => { c.note("refused", 1); }
        Ok(Ok(id)) => { v.push_str("last").map_err(zerr("push"))?;
            let g = catch(|| v.get(id).map(|x| x.len())).map_err(|p| bad("panic", format!("get after huge push: {}", p.msg)))?;
            if g != Some(len) || v.get(id) != Some(s.as_str()) { acc.add(tag, "get", format!("push_str accepted a {len}-byte string but get() returns {:?} bytes", g)); }
            if v.get(id + 1) != Some("last") { acc.add(tag, "get", format!("string after the {len}-byte one reads back as {:?}", v.get(id + 1).map(|x| x.chars().take(12).collect::<String>()))); }
            c.ev(2); } }
    acc.res()
}

/// mode: 0 from_sorted_strings, 1 from_strings, 2 from_sortable_str_vec, 3 range, 4 nul family
fn zo_check(c: &mut Case, mode: u32, fam: usize) -> Res {
    let n = if c.rng.chance(1, 8) { c.rng.usize_below(3) } else if c.rng.chance(1, 6) { 100 + c.rng.usize_below(200) } else { 2 + c.rng.usize_below(40) };
    let mut list = str_list(&mut c.rng, fam, n);
    if mode == 4 { for _ in 0..1 + c.rng.usize_below(3) { let m = c.rng.below(8) as u32; let s = ustr(&mut c.rng, m); let cs: Vec<char> = s.chars().collect(); let k = c.rng.usize_below(cs.len() + 1); let mut t: String = cs[..k].iter().collect(); t.push('\0'); t.extend(cs[k..].iter()); list.push(t); } c.tag("contains_nul"); }
    zo_run(c, mode, list)
}
fn zo_run(c: &mut Case, mode: u32, list: Vec<String>) -> Res {
    c.input_str("list", &show_list(&list)); c.set_nontrivial(list.len() >= 2);
    let mut want = list.clone(); want.sort();
    let z = match mode {
        1 => { want.dedup(); ZoSortedStrVec::from_strings(list.clone()) }
        2 => { let mut sv = SortableStrVec::new(); for s in &list { sv.push_str(s).map_err(zerr("push"))?; } ZoSortedStrVec::from_sortable_str_vec(sv) }
        _ => ZoSortedStrVec::from_sorted_strings(want.clone()),
    };
    let z = match catch(|| z) { Ok(Ok(z)) => z, Ok(Err(e)) => return Err(bad("ctor_err", format!("constructor failed on valid input: {e}"))), Err(p) => return Err(bad("panic", format!("constructor panicked: {}", p.msg))) };
    let nul = if mode == 4 { Some("contains_nul") } else { None };
    let n = want.len(); let mut acc = Acc::default();
    ensure!(z.len() == n && z.is_empty() == (n == 0), "len", "len={} want {n}", z.len());
    for i in 0..n { let g = catch(|| z.get(i).map(|s| s.to_string())).map_err(|p| bad("panic", format!("get({i}) panicked at {}: {}", p.loc, p.msg)))?; if g.as_deref() != Some(want[i].as_str()) { acc.add(nul, "get", format!("get({i})={g:?} want {:?}", want[i])); } c.ev(1); }
    ensure!(z.get(n).is_none() && z.get(usize::MAX).is_none(), "get_oob", "get(len) is Some");
    let it = z.iter(); ensure!(it.len() == n, "iter_len", "ExactSizeIterator len={} want {n}", it.len());
    let got: Vec<String> = z.iter().map(|s| s.to_string()).collect();
    if got != want { acc.add(nul, "iter", format!("iter() gave {} strings {} want {}", got.len(), show_list(&got[..got.len().min(12)]), show_list(&want[..want.len().min(12)]))); }
    c.ev(n as u64);
    if mode != 4 {
        for t in probes_for(&mut c.rng, &want) { bsearch_check(&mut acc, &want, &t, z.binary_search(&t), "binary_search"); let ct = z.contains(&t); if ct != want.contains(&t) { acc.add(None, "contains", format!("contains({t:?})={ct}")); } c.ev(2); }
    }
    if mode == 3 {
        let ps = probes_for(&mut c.rng, &want);
        for _ in 0..(if want.len() > 4096 { 5 } else { 30 }) { let (a, b) = (c.rng.pick(&ps).clone(), c.rng.pick(&ps).clone());
            let dup = if dup_count(&want, &a) >= 2 || dup_count(&want, &b) >= 2 { c.tag("dup_range_bound"); Some("dup_range_bound") } else { None };
            let r = z.range(&a, &b); let hint = r.len(); let got: Vec<String> = r.map(|s| s.to_string()).collect();
            let w: Vec<String> = want.iter().filter(|s| s.as_str() >= a.as_str() && s.as_str() < b.as_str()).cloned().collect();
            if got != w { acc.add(dup, "range", format!("range({a:?},{b:?}) gave {} want {} (strings s with start <= s < end); list {}", show_list(&got), show_list(&w), show_list(&want[..want.len().min(30)]))); }
            else if hint != w.len() { acc.add(None, "range_len", format!("range len()={hint} want {}", w.len())); }
            c.ev(1); }
    }
    if mode == 0 && n >= 2 && want[0] != want[n - 1] { let mut u = want.clone(); u.swap(0, n - 1); match catch(|| ZoSortedStrVec::from_sorted_strings(u)) { Ok(Err(_)) => {} Ok(Ok(_)) => acc.add(None, "unsorted_accepted", "from_sorted_strings accepted an unsorted list".into()), Err(p) => acc.add(None, "panic", format!("from_sorted_strings(unsorted) panicked: {}", p.msg)) } }
    acc.res()
}

// ---------------------------------------------------------------------------------------------
// join / word boundaries
// ---------------------------------------------------------------------------------------------
fn join_model(sep: &[u8], parts: &[Vec<u8>]) -> Vec<u8> { let mut o = Vec::new(); for (i, p) in parts.iter().enumerate() { if i > 0 { o.extend_from_slice(sep); } o.extend_from_slice(p); } o }
static STATIC_PARTS: &[&[u8]] = &[b"", b"a", b"bc", b"\0", b"\xff\xfe", b"hello world", b",", b"", b"0123456789abcdef0123456789abcdef"];
const SEPS: &[&str] = &["", ",", ", ", "\0", "é", "ab", "-----=====-----", "\r\n"];
/// which: 0 join, 1 join_str, 2 join_fast_str, 3 join_iter, 4 join_bytes_iter, 5 JoinBuilder
fn join_check(c: &mut Case, which: u32) -> Res {
    let np = match c.rng.below(6) { 0 => 0, 1 => 1, 2 => 2, _ => c.rng.usize_below(12) };
    let sep = *c.rng.pick(SEPS); c.input_str("sep", &format!("{sep:?}"));
    match which {
        0 | 2 => {
            let parts: Vec<Vec<u8>> = (0..np).map(|_| { if c.rng.chance(1, 4) { Vec::new() } else if which == 2 && c.rng.chance(2, 3) { let m = c.rng.below(8) as u32; ustr(&mut c.rng, m).into_bytes() } else { let k = c.rng.below(gen::BYTE_KINDS as u64) as u32; let l = c.rng.usize_below(20); gen::bytes_kind(&mut c.rng, k, l) } }).collect();
            c.input("parts", &join_model(b"|", &parts)); c.hash_more(&np.to_le_bytes()); c.set_nontrivial(np >= 2);
            if which == 0 {
                let sepb: Vec<u8> = if c.rng.chance(1, 3) { c.rng.bytes(3) } else { sep.as_bytes().to_vec() };
                let refs: Vec<&[u8]> = parts.iter().map(|p| p.as_slice()).collect();
                let got = zipora::string::join(&sepb, &refs); let want = join_model(&sepb, &parts);
                ensure!(got == want, "join", "join gave {} want {}", gen::abbrev(&got), gen::abbrev(&want));
            } else {
                let fs: Vec<FastStr> = parts.iter().map(|p| FastStr::new(p)).collect();
                let got = zipora::string::join_fast_str(sep, &fs);
                let lossy: Vec<Vec<u8>> = parts.iter().map(|p| String::from_utf8_lossy(p).into_owned().into_bytes()).collect();
                let want = join_model(sep.as_bytes(), &lossy);
                ensure!(got.as_bytes() == want.as_slice(), "join_fast_str", "join_fast_str gave {:?} want {:?}", got, String::from_utf8_lossy(&want));
            }
        }
        4 => {
            let parts: Vec<&'static [u8]> = (0..np).map(|_| *c.rng.pick(STATIC_PARTS)).collect(); let owned: Vec<Vec<u8>> = parts.iter().map(|p| p.to_vec()).collect();
            c.input("parts", &join_model(b"|", &owned)); c.hash_more(&np.to_le_bytes()); c.set_nontrivial(np >= 2);
            let got = zipora::string::join_bytes_iter(sep.as_bytes(), parts.into_iter()); let want = join_model(sep.as_bytes(), &owned);
            ensure!(got == want, "join_bytes_iter", "gave {} want {}", gen::abbrev(&got), gen::abbrev(&want));
        }
        _ => {
            let parts: Vec<String> = (0..np).map(|_| { let m = c.rng.below(8) as u32; ustr(&mut c.rng, m) }).collect();
            c.input_str("parts", &show_list(&parts)); c.set_nontrivial(np >= 2);
            let want = String::from_utf8(join_model(sep.as_bytes(), &parts.iter().map(|p| p.clone().into_bytes()).collect::<Vec<_>>())).unwrap();
            let refs: Vec<&str> = parts.iter().map(|s| s.as_str()).collect();
            match which {
                1 => { let got = zipora::string::join_str(sep, &refs); ensure!(got == want, "join_str", "gave {got:?} want {want:?}"); }
                3 => { let got = zipora::string::join_iter(sep, refs.iter()); ensure!(got == want, "join_iter", "gave {got:?} want {want:?}");
                       let got = zipora::string::join_iter(sep, parts.iter().cloned()); ensure!(got == want, "join_iter", "owned items: gave {got:?} want {want:?}"); }
                _ => { let mut b = if c.rng.bool() { zipora::string::JoinBuilder::new(sep) } else { zipora::string::JoinBuilder::with_capacity(sep, c.rng.usize_below(20)) };
                       ensure!(b.is_empty() && b.len() == 0 && b.build().is_empty(), "join_builder", "fresh builder not empty");
                       for (i, p) in refs.iter().enumerate() { b.push(p); ensure!(b.len() == i + 1, "join_builder_len", "len after {} pushes = {}", i + 1, b.len()); }
                       let g1 = b.build(); let g2 = b.build(); ensure!(g1 == want && g2 == want, "join_builder", "build gave {g1:?} want {want:?}");
                       let g3 = b.finish(); ensure!(g3 == want, "join_builder", "finish gave {g3:?}"); }
            }
        }
    }
    c.ev(1); Ok(())
}

fn wc(b: u8) -> bool { b.is_ascii_alphanumeric() || b == b'_' }
fn gen_wtext(r: &mut Rng) -> Vec<u8> {
    if r.chance(1, 4) { let (_, b) = gen::bytes_any(r, 200); return b; }
    let l = r.usize_below(80); const A: &[u8] = b"abzAZ059__  \t\n-.,!'\"\x00\x7f\x80\xc3\xa9\xff";
    let mut out = Vec::new(); while out.len() < l { let run = 1 + r.usize_below(5); let word = r.bool(); for _ in 0..run { let b = *r.pick(A); out.push(if word && !wc(b) { b'w' } else { b }); } } out
}
/// which: 0 boundaries, 1 words, 2 word_at_position
fn word_check(c: &mut Case, which: u32) -> Res {
    use zipora::string::{find_word_boundaries, is_word_boundary, word_at_position, word_count, words, WordIterator};
    let t = gen_wtext(&mut c.rng); let n = t.len(); c.input("text", &t); c.set_nontrivial(n >= 2);
    match which {
        0 => { let model = |p: usize| n == 0 || p == 0 || p >= n || wc(t[p - 1]) != wc(t[p]);
            for p in 0..n + 3 { ensure!(is_word_boundary(&t, p) == model(p), "is_word_boundary", "pos {p}: {} want {}", is_word_boundary(&t, p), model(p)); c.ev(1); }
            let want: Vec<usize> = (0..=n).filter(|&p| model(p)).collect(); let got = find_word_boundaries(&t);
            ensure!(got == want, "find_word_boundaries", "got {got:?} want {want:?}"); }
        1 => { let mut want: Vec<&[u8]> = Vec::new(); let mut i = 0; while i < n { if wc(t[i]) { let s = i; while i < n && wc(t[i]) { i += 1; } want.push(&t[s..i]); } else { i += 1; } }
            let got: Vec<&[u8]> = words(&t).collect(); ensure!(got == want, "words", "words() gave {} words want {}", got.len(), want.len());
            let got2: Vec<&[u8]> = WordIterator::new(&t).collect(); ensure!(got2 == want, "word_iterator", "WordIterator differs");
            ensure!(word_count(&t) == want.len(), "word_count", "word_count={} want {}", word_count(&t), want.len()); c.ev(want.len() as u64 + 2); }
        _ => { for p in 0..n + 3 { let want = if p < n && wc(t[p]) { let mut s = p; while s > 0 && wc(t[s - 1]) { s -= 1; } let mut e = p; while e < n && wc(t[e]) { e += 1; } Some((s, e)) } else { None };
                ensure!(word_at_position(&t, p) == want, "word_at_position", "pos {p}: {:?} want {want:?}", word_at_position(&t, p)); c.ev(1); } }
    }
    Ok(())
}
fn charclass_check(c: &mut Case) -> Res {
    use zipora::string::{is_punctuation, is_whitespace, is_word_char, utf8_byte_count};
    c.input_str("all_bytes", "0..=255"); c.set_nontrivial(true);
    for b in 0..=255u8 {
        ensure!(is_word_char(b) == wc(b), "is_word_char", "byte {b:#x}");
        ensure!(is_whitespace(b) == matches!(b, b' ' | b'\t' | b'\n' | b'\r' | 0x0b | 0x0c), "is_whitespace", "byte {b:#x}");
        // '_' is a word character in this module; every other ASCII punctuation byte must be classified as punctuation
        if b != b'_' { ensure!(is_punctuation(b) == b.is_ascii_punctuation(), "is_punctuation", "byte {b:#x}: {}", is_punctuation(b)); }
        let want = match b { 0..=0x7f => Some(1), 0x80..=0xbf => Some(0), 0xc2..=0xdf => Some(2), 0xe0..=0xef => Some(3), 0xf0..=0xf4 => Some(4), 0xf8..=0xff => Some(0), _ => None };
        if let Some(w) = want { ensure!(utf8_byte_count(b) == w, "utf8_byte_count", "byte {b:#x}: {} want {w}", utf8_byte_count(b)); }
        c.ev(4);
    }
    Ok(())
}

// ---------------------------------------------------------------------------------------------
// line processing
// ---------------------------------------------------------------------------------------------
fn gen_cfg(c: &mut Case, allow_secure: bool) -> LineProcessorConfig {
    let cfg = match c.rng.below(6) {
        0 => LineProcessorConfig::default(), 1 => LineProcessorConfig::performance_optimized(), 2 => LineProcessorConfig::memory_optimized(),
        _ => LineProcessorConfig { buffer_size: *c.rng.pick(&[1usize, 2, 3, 7, 16, 64, 65536]), max_line_length: 10 << 20, preserve_line_endings: c.rng.chance(1, 3), skip_empty_lines: c.rng.bool(), trim_whitespace: c.rng.chance(1, 3), use_secure_memory: false },
    };
    let cfg = if allow_secure { LineProcessorConfig::secure() } else { cfg };
    c.input_str("cfg", &format!("buf={} preserve={} skip_empty={} trim={} secure={}", cfg.buffer_size, cfg.preserve_line_endings, cfg.skip_empty_lines, cfg.trim_whitespace, cfg.use_secure_memory));
    cfg
}
fn expect_lines(text: &str, cfg: &LineProcessorConfig) -> Vec<String> {
    let mut out = Vec::new();
    for (s, raw) in model_lines(text) { let base = if cfg.preserve_line_endings { raw } else { s }; let l = if cfg.trim_whitespace { base.trim().to_string() } else { base }; if cfg.skip_empty_lines && l.is_empty() { continue; } out.push(l); }
    out
}
fn mk_lp(text: &str, cfg: &LineProcessorConfig, step: usize) -> LineProcessor<Chunky> { LineProcessor::with_config(Chunky { data: text.as_bytes().to_vec(), pos: 0, step }, cfg.clone()) }
/// which: 0 process(+find,+split_by,+stats,+early stop), 1 batches, 2 batches early stop, 3 count_lines, 4 utils, 5 analyze_text, 6 secure config
fn line_check(c: &mut Case, which: u32, fam: usize) -> Res { let text = gen_text(&mut c.rng, fam, false); line_run(c, which, text) }
fn line_run(c: &mut Case, which: u32, text: String) -> Res {
    c.input_str("text", &format!("{text:?}"));
    let cfg = gen_cfg(c, which == 6); let step = *c.rng.pick(&[1usize, 3, 1 << 20]);
    let want = expect_lines(&text, &cfg); let raw_n = model_lines(&text).len(); c.set_nontrivial(raw_n >= 2);
    let mut acc = Acc::default();
    match which {
        0 | 6 => {
            let mut lp = mk_lp(&text, &cfg, step); let mut got: Vec<String> = Vec::new();
            let k = lp.process_lines(|l| { got.push(l.to_string()); Ok(true) }).map_err(zerr("process_lines"))?;
            ensure!(got == want, "process_lines", "delivered {} want {}", show_list(&got), show_list(&want)); ensure!(k == want.len(), "process_lines_count", "returned {k} want {}", want.len());
            let st = lp.get_statistics(); ensure!(st.lines_processed == raw_n && st.bytes_processed == text.len(), "statistics", "lines={} bytes={} want {} / {}", st.lines_processed, st.bytes_processed, raw_n, text.len());
            c.ev(want.len() as u64 + 2);
            if which == 6 { return Ok(()); }
            if c.rng.bool() { let mut lp = LineProcessor::new(std::io::Cursor::new(text.clone().into_bytes())); let mut g = Vec::new(); lp.process_lines(|l| { g.push(l.to_string()); Ok(true) }).map_err(zerr("process_lines"))?;
                ensure!(g == expect_lines(&text, &LineProcessorConfig::default()), "process_lines", "default config: delivered {}", show_list(&g)); }
            // early stop after `stop` lines
            if !want.is_empty() { let stop = c.rng.usize_below(want.len()); let mut seen = 0usize; let mut lp = mk_lp(&text, &cfg, step);
                let k = lp.process_lines(|_| { seen += 1; Ok(seen <= stop) }).map_err(zerr("process_lines"))?;
                ensure!(seen == stop + 1 && k == stop, "process_lines_stop", "handler said stop at call {}: called {seen} times, returned {k}", stop + 1); }
            // find_lines with 1-based line numbers among delivered lines
            let pred = |l: &str| l.len() % 2 == 0; let mut lp = mk_lp(&text, &cfg, step);
            let f = lp.find_lines(pred).map_err(zerr("find_lines"))?; let wf: Vec<(usize, String)> = want.iter().enumerate().filter(|(_, l)| pred(l)).map(|(i, l)| (i + 1, l.clone())).collect();
            ensure!(f == wf, "find_lines", "got {f:?} want {wf:?}");
            let d = *c.rng.pick(&[",", " ", "\t", "ab", "é"]); let mut lp = mk_lp(&text, &cfg, step); let mut gf: Vec<(String, usize, usize)> = Vec::new();
            let tot = lp.split_lines_by(d, |f, ln, fi| { gf.push((f.to_string(), ln, fi)); Ok(true) }).map_err(zerr("split_lines_by"))?;
            let mut wfz = Vec::new(); for (i, l) in want.iter().enumerate() { for (j, f) in l.split(d).enumerate() { wfz.push((f.to_string(), i + 1, j)); } }
            ensure!(gf == wfz && tot == wfz.len(), "split_lines_by", "delimiter {d:?}: {} fields want {}", gf.len(), wfz.len()); c.ev(wfz.len() as u64);
        }
        1 | 2 => {
            let bs = *c.rng.pick(&[1usize, 2, 3, 5, 100]); c.input_str("batch", &bs.to_string());
            let nb_full = want.len() / bs; let stop_at = if which == 2 && nb_full > 0 { Some(c.rng.usize_below(nb_full)) } else { None };
            if which == 2 { if stop_at.is_none() { return Ok(()); } c.tag("stop_on_full_batch"); }
            let mut lp = mk_lp(&text, &cfg, step); let mut batches: Vec<Vec<String>> = Vec::new();
            let k = lp.process_batches(bs, |b| { batches.push(b.to_vec()); Ok(Some(batches.len() - 1) != stop_at) }).map_err(zerr("process_batches"))?;
            match stop_at {
                None => { let flat: Vec<String> = batches.iter().flatten().cloned().collect(); ensure!(flat == want, "batches_content", "batches concatenate to {} want {}", show_list(&flat), show_list(&want));
                    for (i, b) in batches.iter().enumerate() { ensure!(b.len() == bs || (i + 1 == batches.len() && b.len() < bs && !b.is_empty()), "batch_size", "batch {i} has {} lines (size {bs})", b.len()); }
                    ensure!(k == want.len(), "batches_count", "returned {k} want {}", want.len()); }
                Some(s) => { if batches.len() != s + 1 { acc.add(Some("stop_on_full_batch"), "batch_delivered_after_stop", format!("handler returned false on batch {s} (size {bs}) but was called {} times; last two batches equal: {}", batches.len(), batches.len() >= 2 && batches[batches.len() - 1] == batches[batches.len() - 2])); }
                    else if k != s * bs { acc.add(None, "batches_count", format!("returned {k} want {}", s * bs)); } }
            }
            c.ev(batches.len() as u64);
        }
        3 => {
            let mut lp = mk_lp(&text, &cfg, step); let k = lp.count_lines().map_err(zerr("count_lines"))?;
            // unambiguous configurations only: what process_lines would deliver
            let ws_only = model_lines(&text).iter().any(|(s, _)| !s.is_empty() && s.trim().is_empty());
            let ambiguous = cfg.skip_empty_lines && !cfg.trim_whitespace && (cfg.preserve_line_endings || ws_only);
            if ambiguous { c.tag("skip_empty_untrimmed_blank"); }
            if k != want.len() { acc.add(if ambiguous { Some("skip_empty_untrimmed_blank") } else { None }, "count_vs_process", format!("count_lines()={k} but process_lines delivers {} lines under the same config", want.len())); }
            c.ev(1);
        }
        4 => {
            use zipora::string::utils::line_utils::{count_word_frequencies, extract_unique_lines, filter_by_length};
            let fq = count_word_frequencies(mk_lp(&text, &cfg, step)).map_err(zerr("count_word_frequencies"))?; let mut wfq: BTreeMap<String, usize> = BTreeMap::new();
            for l in &want { for w in l.split_whitespace() { *wfq.entry(w.to_lowercase()).or_insert(0) += 1; } }
            let g: BTreeMap<String, usize> = fq.into_iter().collect(); ensure!(g == wfq, "word_frequencies", "got {g:?} want {wfq:?}");
            let mut u = extract_unique_lines(mk_lp(&text, &cfg, step)).map_err(zerr("extract_unique_lines"))?; u.sort(); let mut wu = want.clone(); wu.sort(); wu.dedup(); ensure!(u == wu, "unique_lines", "got {} want {}", show_list(&u), show_list(&wu));
            let (lo, hi) = (c.rng.usize_below(4), c.rng.usize_below(12)); let f = filter_by_length(mk_lp(&text, &cfg, step), lo, hi).map_err(zerr("filter_by_length"))?;
            let wf: Vec<String> = want.iter().filter(|l| l.len() >= lo && l.len() <= hi).cloned().collect(); ensure!(f == wf, "filter_by_length", "[{lo},{hi}] got {} want {}", show_list(&f), show_list(&wf)); c.ev(3);
        }
        _ => {
            let a = zipora::string::utils::line_utils::analyze_text(mk_lp(&text, &cfg, step)).map_err(zerr("analyze_text"))?;
            let (tl, tc, tb) = (want.len(), want.iter().map(|l| l.chars().count()).sum::<usize>(), want.iter().map(|l| l.len()).sum::<usize>());
            let tw: usize = want.iter().map(|l| l.split_whitespace().count()).sum(); let el = want.iter().filter(|l| l.trim().is_empty()).count();
            let mx = want.iter().map(|l| l.len()).max().unwrap_or(0); let mn = want.iter().map(|l| l.len()).min().unwrap_or(0);
            ensure!(a.total_lines == tl && a.total_chars == tc && a.total_bytes == tb && a.total_words == tw && a.empty_lines == el && a.max_line_length == mx, "analysis_counters", "got {a:?} want lines={tl} chars={tc} bytes={tb} words={tw} empty={el} max={mx}");
            let pred = want.iter().any(|l| l.is_empty()) && want.last().map_or(false, |l| !l.is_empty());
            if pred { c.tag("empty_line_then_nonempty_last"); }
            if a.min_line_length != mn { acc.add(if pred { Some("empty_line_then_nonempty_last") } else { None }, "analysis_min_line_length", format!("min_line_length={} want {mn}; line lengths {:?}", a.min_line_length, want.iter().map(|l| l.len()).collect::<Vec<_>>())); }
            c.ev(7);
        }
    }
    acc.res()
}
/// strategy: 0 simple, 1 custom, 2 optimized
fn splitter_check(c: &mut Case, strategy: u32) -> Res {
    let mut sp = match strategy { 0 => if c.rng.bool() { LineSplitter::new() } else { LineSplitter::default() }, 1 => LineSplitter::new().with_delimiter("::".to_string()), _ => LineSplitter::new().with_optimized_strategy() };
    let mut acc = Acc::default(); let mut desc = String::new(); let mut any = false;
    for _ in 0..6 {
        let d = *c.rng.pick(&[",", "\t", " ", ",", "::", "ab", "é", ""]); let nf = c.rng.usize_below(6);
        let mut line = String::new(); for i in 0..nf { if i > 0 || c.rng.chance(1, 5) { line.push_str(d); } if !c.rng.chance(1, 3) { let m = c.rng.below(8) as u32; line.push_str(&ustr(&mut c.rng, m)); } } if c.rng.chance(1, 3) { line.push_str(d); }
        desc.push_str(&format!("{line:?}/{d:?};")); any |= line.len() >= 2;
        let want: Vec<String> = line.split(d).map(|s| s.to_string()).collect();
        let fast = strategy == 2 && matches!(d, "," | "\t" | " "); let pred = fast && (line.is_empty() || line.ends_with(d));
        if pred { c.tag("trailing_empty_field"); } if fast { c.note("optimized_path", 1); }
        let got: Vec<String> = sp.split(&line, d).to_vec();
        if got != want { acc.add(if pred { Some("trailing_empty_field") } else { None }, "split_fields", format!("split({line:?},{d:?}) gave {} want {} (str::split)", show_list(&got), show_list(&want))); }
        c.ev(1);
    }
    c.input_str("lines", &desc); c.set_nontrivial(any);
    acc.res()
}

// ---------------------------------------------------------------------------------------------
// unicode counters / case conversion
// ---------------------------------------------------------------------------------------------
fn gen_ustring(r: &mut Rng) -> String { let k = r.usize_below(5); let mut s = String::new(); for _ in 0..k { let m = r.below(8) as u32; s.push_str(&ustr(r, m)); if r.chance(1, 4) { s.push(*r.pick(&['\n', '\r', '\0', '\u{1b}', '\u{85}', 'Ǆ', 'ﬁ', 'ẞ'])); } } s }
/// Byte strings around the UTF-8 validity boundary.
fn gen_maybe_utf8(r: &mut Rng) -> Vec<u8> {
    let mut b = gen_ustring(r).into_bytes(); if r.chance(1, 4) { let pad = 30 + r.usize_below(40); b.extend(std::iter::repeat(b'x').take(pad)); }
    match r.below(8) {
        0 | 1 | 2 => {}
        3 => { if !b.is_empty() { let k = r.usize_below(b.len()); b.truncate(k); } }
        4 => { let k = r.usize_below(b.len() + 1); let bad: &[u8] = *r.pick(&[&[0xc0u8, 0x80][..], &[0xed, 0xa0, 0x80], &[0xf4, 0x90, 0x80, 0x80], &[0x80], &[0xff], &[0xe2, 0x82], &[0xf8, 0x88, 0x80, 0x80, 0x80], &[0xc1, 0xbf], &[0xe0, 0x80, 0x80]]); for (i, x) in bad.iter().enumerate() { b.insert(k + i, *x); } }
        5 => { if !b.is_empty() { let k = r.usize_below(b.len()); b[k] ^= 0x80; } }
        6 => { let (_, x) = gen::bytes_any(r, 100); b = x; }
        _ => { if !b.is_empty() { let k = r.usize_below(b.len()); b.remove(k); } }
    }
    b
}
/// which: 0 validate/count, 1 utf32 iterator, 2 analyze, 3 case + utils, 4 ascii case (bmi2)
fn unicode_check(c: &mut Case, which: u32) -> Res {
    match which {
        0 => {
            let b = gen_maybe_utf8(&mut c.rng); c.input("bytes", &b); c.set_nontrivial(b.len() >= 2);
            let want = std::str::from_utf8(&b).ok().map(|s| s.chars().count()); c.note(if want.is_some() { "valid" } else { "invalid" }, 1);
            let got = catch(|| zipora::string::validate_utf8_and_count_chars(&b)).map_err(|p| bad("panic", format!("validate_utf8_and_count_chars panicked at {}: {}", p.loc, p.msg)))?;
            ensure!(got.as_ref().ok().copied() == want, "validate_utf8_and_count_chars", "got {:?} want {want:?}", got.as_ref().ok());
            let it = Utf8ToUtf32Iterator::new(&b); ensure!(it.is_ok() == want.is_some(), "utf32_iter_validation", "Utf8ToUtf32Iterator::new is_ok={} but from_utf8 is_ok={}", it.is_ok(), want.is_some());
            c.ev(2);
        }
        1 => {
            let s = gen_ustring(&mut c.rng); c.input_str("s", &format!("{s:?}")); c.set_nontrivial(s.chars().count() >= 2);
            let chars: Vec<(usize, char)> = s.char_indices().collect(); let n = chars.len(); let off = |i: usize| if i < n { chars[i].0 } else { s.len() };
            for (_, ch) in &chars { let lead = ch.encode_utf8(&mut [0u8; 4]).as_bytes()[0]; ensure!(zipora::string::utf8_byte_count(lead) == ch.len_utf8(), "utf8_byte_count", "lead byte {lead:#x} of {ch:?}"); }
            let mut it = Utf8ToUtf32Iterator::new(s.as_bytes()).map_err(zerr("Utf8ToUtf32Iterator::new"))?; let (mut idx, mut cur): (usize, Option<char>) = (0, None);
            ensure!(it.current().is_none() && it.byte_position() == 0, "utf32_iter_initial", "fresh iterator state");
            let mut fwd = Vec::new(); while let Some(ch) = it.next_char() { fwd.push(ch); if fwd.len() > n { break; } }
            ensure!(fwd == chars.iter().map(|x| x.1).collect::<Vec<_>>(), "utf32_iter_forward", "forward decode differs: {fwd:?}"); ensure!(it.byte_position() == s.len(), "utf32_iter_position", "position after full decode = {}", it.byte_position());
            let mut bwd = Vec::new(); while let Some(ch) = it.prev_char() { bwd.push(ch); if bwd.len() > n { break; } } bwd.reverse();
            ensure!(bwd == fwd, "utf32_iter_backward", "backward decode differs: {bwd:?}"); it.reset(); c.ev(2 * n as u64);
            for _ in 0..40 {
                match c.rng.below(5) {
                    0 | 1 | 2 => { let g = it.next_char(); let w = if idx < n { idx += 1; Some(chars[idx - 1].1) } else { None }; cur = w; ensure!(g == w, "utf32_iter_walk", "next_char={g:?} want {w:?} (char index {idx})"); }
                    3 => { let g = it.prev_char(); let w = if idx > 0 { idx -= 1; Some(chars[idx].1) } else { None }; cur = w; ensure!(g == w, "utf32_iter_walk", "prev_char={g:?} want {w:?} (char index {idx})"); }
                    _ => { if c.rng.chance(1, 4) { it.reset(); idx = 0; cur = None; } }
                }
                ensure!(it.current() == cur, "utf32_iter_current", "current()={:?} want {cur:?}", it.current()); ensure!(it.byte_position() == off(idx), "utf32_iter_position", "byte_position={} want {}", it.byte_position(), off(idx)); c.ev(3);
            }
        }
        2 => {
            let s = gen_ustring(&mut c.rng); c.input_str("s", &format!("{s:?}")); c.set_nontrivial(s.chars().count() >= 2);
            let a = UnicodeProcessor::new().analyze(&s); let cnt = |f: &dyn Fn(char) -> bool| s.chars().filter(|&ch| f(ch)).count();
            ensure!(a.byte_count == s.len() && a.char_count == s.chars().count(), "analysis_counts", "bytes={} chars={}", a.byte_count, a.char_count);
            ensure!(a.ascii_count == cnt(&|ch| ch.is_ascii()) && a.alphabetic_count == cnt(&|ch| ch.is_alphabetic()) && a.numeric_count == cnt(&|ch| ch.is_numeric()) && a.whitespace_count == cnt(&|ch| ch.is_whitespace()) && a.control_count == cnt(&|ch| ch.is_control()), "analysis_classes", "got {a:?}");
            ensure!(a.basic_latin + a.latin_supplement + a.extended_latin + a.other_unicode == a.char_count && a.basic_latin == a.ascii_count && a.latin_supplement == cnt(&|ch| (0x80..=0xff).contains(&(ch as u32))), "analysis_blocks", "got {a:?}");
            ensure!(a.is_ascii() == s.is_ascii(), "analysis_is_ascii", "is_ascii={}", a.is_ascii()); c.ev(10);
        }
        3 => {
            use zipora::string::utils::unicode_utils::{extract_codepoints, is_printable, to_lowercase_unicode, to_uppercase_unicode};
            let s = gen_ustring(&mut c.rng); c.input_str("s", &format!("{s:?}")); c.set_nontrivial(s.chars().any(|ch| ch.is_alphabetic()));
            ensure!(to_lowercase_unicode(&s) == s.to_lowercase(), "to_lowercase", "got {:?}", to_lowercase_unicode(&s)); ensure!(to_uppercase_unicode(&s) == s.to_uppercase(), "to_uppercase", "got {:?}", to_uppercase_unicode(&s));
            let (nz, cf) = (c.rng.bool(), c.rng.bool()); let mut p = UnicodeProcessor::new().with_normalization(nz).with_case_folding(cf); let g = p.process(&s).map_err(zerr("process"))?;
            ensure!(g == if cf { s.to_lowercase() } else { s.clone() }, "process_case_fold", "normalize={nz} case_fold={cf}: got {g:?}");
            ensure!(extract_codepoints(&s) == s.chars().map(|ch| ch as u32).collect::<Vec<_>>(), "extract_codepoints", "differs");
            ensure!(is_printable(&s) == s.chars().all(|ch| !ch.is_control() || matches!(ch, '\t' | '\n' | '\r')), "is_printable", "got {}", is_printable(&s)); c.ev(5);
        }
        _ => {
            let mut s = gen_ustring(&mut c.rng); if c.rng.bool() { let l = c.rng.usize_below(40); for _ in 0..l { s.push(*c.rng.pick(&['a', 'Z', 'm', 'Q', '@', '[', '`', '{', '0', 'é', 'É'])); } }
            c.input_str("s", &format!("{s:?}")); c.set_nontrivial(s.len() >= 8); if s.len() >= 8 { c.note("len_ge_8", 1); }
            let lo = zipora::string::to_lowercase_ascii_bmi2(&s); ensure!(lo == s.to_ascii_lowercase(), "to_lowercase_ascii", "got {lo:?} want {:?}", s.to_ascii_lowercase());
            let up = zipora::string::to_uppercase_ascii_bmi2(&s); ensure!(up == s.to_ascii_uppercase(), "to_uppercase_ascii", "got {up:?} want {:?}", s.to_ascii_uppercase()); c.ev(2);
        }
    }
    Ok(())
}

// ---------------------------------------------------------------------------------------------
pub fn run(ctx: &mut Ctx) {
    // FastStr: per byte family x relation
    let per = ctx.n(16, 420);
    for kind in 0..gen::BYTE_KINDS { let kn = gen::byte_kind_name(kind);
        for (rel, rn) in RELS.iter().enumerate() { let g = format!("{kn}/{rn}");
            for idx in 0..per as u64 {
                ctx.case("faststr/cmp", &g, idx, |c| faststr_cmp(c, kind, rel));
                ctx.case("faststr/hash", &g, idx, |c| faststr_hash(c, kind, rel));
            } }
        for idx in 0..(per * 4) as u64 {
            ctx.case("faststr/search", kn, idx, |c| faststr_search(c, kind));
            ctx.case("faststr/slice", kn, idx, |c| faststr_slice(c, kind));
        } }
    // numeric comparators
    let per = ctx.n(90, 3500);
    for (which, t) in ["num/decimal", "num/decimal_with_sign", "num/realnum", "num/realnum_with_sign"].iter().enumerate() {
        for (fam, fname) in NUM_FAMS.iter().enumerate() {
            if which < 2 && (fam == 3 || fam == 4) { continue; } // fraction spellings do not exist for integers
            for idx in 0..per as u64 { ctx.case(t, fname, idx, |c| num_check(c, which as u32, fam, false)); } }
        if which % 2 == 0 { for idx in 0..(per * 2) as u64 { ctx.case(t, "invalid", idx, |c| num_check(c, which as u32, 5, true)); } }
    }
    // iterators and sorted vectors
    let per = ctx.n(80, 2500);
    for (fam, fname) in LIST_FAMS.iter().enumerate() { for idx in 0..per as u64 {
        ctx.case("lex/sortedvec", fname, idx, |c| lex_sortedvec(c, fam));
        ctx.case("strvec/sortable_cmp", fname, idx, |c| sortable_check(c, 0, fam));
        ctx.case("strvec/sortable_radix", fname, idx, |c| sortable_check(c, 1, fam));
        ctx.case("strvec/sortable_bylen", fname, idx, |c| sortable_check(c, 2, fam));
        ctx.case("strvec/sortable_custom", fname, idx, |c| sortable_check(c, 3, fam));
        ctx.case("strvec/zo_sorted", fname, idx, |c| zo_check(c, 0, fam));
        ctx.case("strvec/zo_from_strings", fname, idx, |c| zo_check(c, 1, fam));
        ctx.case("strvec/zo_from_sortable", fname, idx, |c| zo_check(c, 2, fam));
        ctx.case("strvec/zo_range", fname, idx, |c| zo_check(c, 3, fam));
        if idx < (per / 6).max(2) as u64 { ctx.case("strvec/sortable_bsearch_block", fname, idx, |c| sortable_check(c, 4, fam)); }
        if idx < (per / 3).max(2) as u64 { ctx.case("strvec/zo_sorted", &format!("{fname}+nul"), idx, |c| zo_check(c, 4, fam)); }
    } }
    for (i, len) in [(1usize << 20) - 1, 1 << 20, (1 << 20) + 5, 3 << 20].iter().enumerate() { ctx.case("strvec/sortable_cmp", "huge_string", i as u64, |c| sortable_huge(c, *len)); }
    for (fam, fname) in TEXT_FAMS.iter().enumerate() { for idx in 0..per as u64 {
        ctx.case("lex/streaming", fname, idx, |c| lex_streaming(c, fam));
        ctx.case("line/process", fname, idx, |c| line_check(c, 0, fam));
        ctx.case("line/batches", fname, idx, |c| line_check(c, 1, fam));
        ctx.case("line/batches_stop", fname, idx, |c| line_check(c, 2, fam));
        ctx.case("line/count", fname, idx, |c| line_check(c, 3, fam));
        ctx.case("line/utils", fname, idx, |c| line_check(c, 4, fam));
        ctx.case("line/analyze", fname, idx, |c| line_check(c, 5, fam));
        if idx < (per / 6).max(2) as u64 { ctx.case("line/secure_cfg", fname, idx, |c| line_check(c, 6, fam)); }
    } }
    let per = ctx.n(300, 10000);
    for idx in 0..per as u64 {
        for (w, t) in ["join/bytes", "join/str", "join/fast_str", "join/iter", "join/bytes_iter", "join/builder"].iter().enumerate() { ctx.case(t, "parts", idx, |c| join_check(c, w as u32)); }
        for (w, t) in ["word/boundary", "word/words", "word/at_position"].iter().enumerate() { ctx.case(t, "text", idx, |c| word_check(c, w as u32)); }
        for (w, t) in ["line/splitter_simple", "line/splitter_custom", "line/splitter_optimized"].iter().enumerate() { ctx.case(t, "fields", idx, |c| splitter_check(c, w as u32)); }
        for (w, t) in ["unicode/validate_count", "unicode/utf32_iter", "unicode/analyze", "unicode/case", "case/ascii_bmi2"].iter().enumerate() { ctx.case(t, "mix", idx, |c| unicode_check(c, w as u32)); }
    }
    ctx.case("word/charclass", "all_bytes", 0, |c| charclass_check(c));
    run_huge(ctx);
}

// =============================================================================================
// huge_* families: sizes around 2^16 / 2^17 / 2^20, > 65 536 elements, every alignment mod 64.
// Oracles are linear (identity / planted positions / std sort / precomputed runs).
// =============================================================================================
const HUGE_LENS: &[usize] = &[65535, 65536, 65537, 131071, 131072, 131073, 131074, (1 << 20) - 1, 1 << 20, (1 << 20) + 1];
fn huge_len(r: &mut Rng) -> usize { if r.chance(1, 3) { (128 << 10) + r.usize_below((1 << 20) - (128 << 10) + 1) } else { *r.pick(HUGE_LENS) } }
const HUGE_SHAPES: &[&str] = &["dominant", "all_equal", "runs", "period", "two_halves", "uniform"];
fn huge_bytes(r: &mut Rng, shape: usize, len: usize) -> Vec<u8> {
    match shape % 6 {
        0 => { let sym = r.next() as u8; let pct = 60 + r.below(40); (0..len).map(|_| if r.below(100) < pct { sym } else { r.next() as u8 }).collect() }
        1 => vec![r.next() as u8; len],
        2 => { let mut v = Vec::with_capacity(len); while v.len() < len { let b = r.next() as u8; let n = 1 + r.usize_below(100_000); let k = n.min(len - v.len()); v.resize(v.len() + k, b); } v }
        3 => { let p = 1 + r.usize_below(9); let pat = r.bytes(p); (0..len).map(|i| pat[i % p]).collect() }
        4 => { let half = (len.saturating_sub(2)) / 2; let x = if r.bool() { r.bytes(half) } else { let s = r.next() as u8; (0..half).map(|_| if r.chance(9, 10) { s } else { r.next() as u8 }).collect() };
               let mut v = Vec::with_capacity(len); v.extend_from_slice(&x); v.push(b'c'); v.extend_from_slice(&x); v.push(b'd'); while v.len() < len { v.push(b'e'); } v }
        _ => r.bytes(len),
    }
}
/// A buffer in which a copy of the content can be placed at any address residue mod 64.
struct Mover { buf: Vec<u8> }
impl Mover {
    fn new(len: usize) -> Mover { Mover { buf: vec![0x5a; len + 192] } }
    /// copy `data` so that its first byte lies at an address congruent to `residue` mod 64
    fn place(&mut self, data: &[u8], residue: usize) -> &[u8] {
        let base = self.buf.as_ptr() as usize; let off = (residue % 64 + 64 - base % 64) % 64;
        self.buf[off..off + data.len()].copy_from_slice(data); &self.buf[off..off + data.len()]
    }
}
fn huge_variant(r: &mut Rng, a: &[u8], rel: usize) -> Vec<u8> {
    let len = a.len(); let mut b = a.to_vec();
    match rel % 6 {
        0 => {}
        1 => { b[len - 1] ^= 1 << r.below(8); }
        2 => { let k = if len > 65537 { 65536 + r.usize_below(len - 65536) } else { len / 2 }; b[k] = b[k].wrapping_add(1 + r.below(255) as u8); }
        3 => { b.truncate(len - 1 - r.usize_below(3)); }
        4 => { let half = (len - 2) / 2; b.swap(half, 2 * half + 1); } // two_halves: X d X c
        _ => { let k = r.usize_below(len); b[k] = if b[k] < 0x80 { 0x80 | b[k] } else { b[k] & 0x7f }; }
    }
    b
}
const HUGE_RELS: &[&str] = &["equal", "last_byte", "diff_beyond_64k", "prefix", "swap_cd", "sign_flip"];
fn faststr_cmp_huge(c: &mut Case, shape: usize, rel: usize) -> Res {
    let len = huge_len(&mut c.rng); let a = huge_bytes(&mut c.rng, shape, len); let b = huge_variant(&mut c.rng, &a, rel);
    c.input_str("shape", HUGE_SHAPES[shape % 6]); c.input_str("rel", HUGE_RELS[rel % 6]); c.input("a", &a); c.input("b", &b); c.set_nontrivial(true);
    let want = a.as_slice().cmp(b.as_slice()); let cpl = cpl_model(&a, &b); let eq = a == b;
    let (mut ma, mut mb) = (Mover::new(a.len()), Mover::new(b.len()));
    for r in 0..64usize {
        let pa = ma.place(&a, r); let pb = mb.place(&b, (r * 7 + 3) % 64);
        ensure!(pa.as_ptr() as usize % 64 == r, "harness", "placement residue");
        let (fa, fb, ga, gb) = (FastStr::new(&a), FastStr::new(&b), FastStr::new(pa), FastStr::new(pb));
        ensure!(ga == fa && fa == ga && ga.cmp(&fa) == Ordering::Equal && ga.compare(fa) == Ordering::Equal, "eq_across_copies", "len {len}: copy at address residue {r} is not equal to the original");
        ensure!(ga.cmp(&gb) == want && gb.cmp(&ga) == want.reverse() && ga.cmp(&fb) == want, "cmp_across_copies", "len {len} residues {r},{}: cmp={:?} want {want:?}", (r * 7 + 3) % 64, ga.cmp(&gb));
        ensure!((ga == gb) == eq && (ga != gb) != eq && (ga < gb) == (want == Ordering::Less), "eq_across_copies", "len {len} residue {r}: eq={} want {eq}", ga == gb);
        if r % 8 == 0 { ensure!(ga.common_prefix_len(gb) == cpl, "common_prefix_len", "got {} want {cpl}", ga.common_prefix_len(gb)); ensure!(ga == a.as_slice() && (ga == b.as_slice()) == eq, "eq_bytes", "mixed-type eq"); c.ev(2); }
        c.ev(7);
    }
    Ok(())
}
fn faststr_hash_huge(c: &mut Case, shape: usize, rel: usize) -> Res {
    let len = huge_len(&mut c.rng); let a = huge_bytes(&mut c.rng, shape, len); let b = huge_variant(&mut c.rng, &a, rel);
    c.input_str("shape", HUGE_SHAPES[shape % 6]); c.input_str("rel", HUGE_RELS[rel % 6]); c.input("a", &a); c.input("b", &b); c.set_nontrivial(true);
    let fa = FastStr::new(&a); let h0 = fa.hash_fast(); let t0 = trait_hash(&fa);
    ensure!(h0 == model_hash(&a), "hash_model", "hash_fast={:x} portable definition={:x} len={len}", h0, model_hash(&a));
    let mut ma = Mover::new(a.len());
    for r in 0..64usize {
        let g = FastStr::new(ma.place(&a, r));
        ensure!(g.hash_fast() == h0, "hash_alignment", "len {len}: hash_fast differs for equal bytes at address residue {r}: {:x} vs {:x}", g.hash_fast(), h0);
        ensure!(trait_hash(&g) == t0, "hash_trait_eq", "len {len}: Hash differs for equal strings at residue {r}"); c.ev(2);
    }
    let boxed: Box<[u8]> = a.clone().into_boxed_slice(); ensure!(FastStr::new(&boxed).hash_fast() == h0, "hash_allocation", "hash differs for a copy in another allocation");
    let fb = FastStr::new(&b); let hb = fb.hash_fast(); ensure!(hb == model_hash(&b), "hash_model", "variant: hash_fast={:x} portable={:x}", hb, model_hash(&b));
    if a == b { ensure!(hb == h0 && trait_hash(&fb) == t0, "eq_implies_hash_eq", "a==b but hashes differ"); } else if hb == h0 { c.note("hash_collision", 1); }
    let mut set: HashSet<FastStr> = HashSet::new(); set.insert(fa); set.insert(FastStr::new(&boxed)); set.insert(fb);
    ensure!(set.len() == if a == b { 1 } else { 2 }, "hashset_distinct", "HashSet has {} entries", set.len());
    c.note(&format!("tail{}", len % 8), 1); c.ev(5); Ok(())
}
fn faststr_search_huge(c: &mut Case, shape: usize) -> Res {
    let len = huge_len(&mut c.rng); let mut hay = huge_bytes(&mut c.rng, shape, len);
    for x in hay.iter_mut() { if *x >= 0xfd { *x = 1; } } // 0xFD / 0xFE never occur in the filler
    let m = 2 + c.rng.usize_below(40); let mut needle: Vec<u8> = vec![0xfe]; for _ in 0..m - 2 { needle.push(c.rng.below(0xfd) as u8); } needle.push(0xfe);
    let p1 = match c.rng.below(5) { 0 => 65535, 1 => 65536, 2 => 65537 - m.min(3), 3 => len - m, _ => if len > 66_000 { 65536 + c.rng.usize_below(len - m - 65536 + 1) } else { len - m } }.min(len - m).max(100);
    hay[p1..p1 + m].copy_from_slice(&needle);
    let p2 = if p1 + 2 * m + 10 < len { let p = p1 + m + 1 + c.rng.usize_below(len - p1 - 2 * m); hay[p..p + m].copy_from_slice(&needle); Some(p) } else { None };
    c.input_str("shape", HUGE_SHAPES[shape % 6]); c.input("hay", &hay); c.input("needle", &needle); c.input_str("p1", &p1.to_string()); c.set_nontrivial(true);
    let mut mv = Mover::new(len); let res = c.rng.usize_below(64); let fh = FastStr::new(mv.place(&hay, res));
    let chk = |got: Option<usize>, want: Option<usize>, what: &str| -> Res { ensure!(got == want, "find", "{what}: got {got:?} want {want:?} (hay len {len}, planted at {p1} and {p2:?})"); Ok(()) };
    chk(fh.find(FastStr::new(&needle)), Some(p1), "planted marker needle")?;
    chk(fh.find(FastStr::new(&hay[p1 - 63.min(p1)..p1 + 1])), Some(p1 - 63.min(p1)), "filler run + first marker byte")?;
    chk(fh.find(FastStr::new(&hay[p1 - 100..p1 + m])), Some(p1 - 100), "100 filler bytes + marker needle")?;
    let repetitive = matches!(shape % 6, 1 | 2 | 3); // naive search is O(n*m) there: keep the long needle near the front
    let back = p1.min(70_000); // needle of back + m > 65 536 bytes
    if !repetitive || p1 - back < 2_000 { chk(fh.find(FastStr::new(&hay[p1 - back..p1 + m])), Some(p1 - back), "needle longer than 64 KiB")?; c.note("needle_gt_64k", 1); }
    let mut absent = needle.clone(); absent[m - 1] = 0xfd; chk(fh.find(FastStr::new(&absent)), None, "needle matching all but its last byte")?;
    chk(fh.find(FastStr::new(&[0xfd, 0xfd])), None, "absent bytes")?;
    chk(fh.find(FastStr::new(&hay)), Some(0), "needle == haystack")?;
    chk(fh.find_byte(0xfe), Some(p1), "find_byte(marker)")?; chk(fh.find_byte_optimized(0xfe), Some(p1), "find_byte_optimized(marker)")?; chk(fh.find(FastStr::new(&[0xfe])), Some(p1), "find(single marker byte)")?;
    chk(fh.find_byte(0xfd), None, "find_byte(absent)")?; chk(fh.find_byte_optimized(0xfd), None, "find_byte_optimized(absent)")?;
    c.ev(12);
    for k in [65536usize, 65537, len - 1, len] { let k = k.min(len);
        ensure!(fh.starts_with(FastStr::new(&hay[..k])) && fh.ends_with(FastStr::new(&hay[len - k..])), "starts_with", "prefix/suffix of length {k} not recognised");
        let mut x = hay[..k].to_vec(); x[k - 1] ^= 0x40; ensure!(!fh.starts_with(FastStr::new(&x)), "starts_with", "prefix of length {k} with last byte changed accepted");
        let mut y = hay[len - k..].to_vec(); y[0] ^= 0x40; ensure!(!fh.ends_with(FastStr::new(&y)), "ends_with", "suffix of length {k} with first byte changed accepted"); c.ev(4); }
    Ok(())
}
fn faststr_slice_huge(c: &mut Case, shape: usize) -> Res {
    let len = huge_len(&mut c.rng); let a = huge_bytes(&mut c.rng, shape, len);
    c.input_str("shape", HUGE_SHAPES[shape % 6]); c.input("a", &a); c.set_nontrivial(true);
    let mut mv = Mover::new(len); let res = c.rng.usize_below(64); let f = FastStr::new(mv.place(&a, res)); let n = len;
    ensure!(f.len() == n && f.as_bytes() == a.as_slice(), "view", "len/as_bytes differ");
    let pts: Vec<usize> = vec![0, 1, 65535, 65536, 65537, n / 2, n - 1, n, n + 1, 1 << 20, (1 << 20) + 1, usize::MAX, c.rng.usize_below(n), 65536 + c.rng.usize_below(n.saturating_sub(65536))];
    for &s in &pts {
        ensure!(f.substring_from(s).as_bytes() == &a[s.min(n)..], "substring_from", "substring_from({s})"); ensure!(f.prefix(s).as_bytes() == &a[..s.min(n)], "prefix", "prefix({s})");
        ensure!(f.suffix(s).as_bytes() == &a[n - s.min(n)..], "suffix", "suffix({s})"); ensure!(f.get_byte(s) == a.get(s).copied(), "get_byte", "get_byte({s})"); c.ev(4);
        if s <= n { for &l in &[0usize, 1, 65535, 65536, 65537, n, usize::MAX] { let e = s.saturating_add(l).min(n); let got = catch(|| f.substring(s, l)).map_err(|p| bad("substring_panic", format!("substring({s},{l}) on len {n}: {}", p.msg)))?; ensure!(got.as_bytes() == &a[s..e], "substring", "substring({s},{l}) len {} want {}", got.len(), e - s); c.ev(1); } }
    }
    ensure!(f.as_str() == std::str::from_utf8(&a).ok(), "as_str", "as_str differs from from_utf8");
    let mut cnt = [0usize; 256]; for &x in &a { cnt[x as usize] += 1; } let dom = (0..256).max_by_key(|&i| cnt[i]).unwrap() as u8;
    for d in [dom, a[n - 1], 0xfdu8] { let want = split_model(&a, d); let mut k = 0usize; for p in f.split(d) { ensure!(k < want.len() && p.as_bytes() == want[k].as_slice(), "split", "split({d:#x}): part {k} differs (want {} parts)", want.len()); k += 1; }
        ensure!(k == want.len(), "split", "split({d:#x}) gave {k} parts want {}", want.len()); c.note(if want.len() > 65536 { "split_parts_gt_64k" } else { "split_parts_le_64k" }, 1); c.ev(1); }
    Ok(())
}

fn huge_num_pool(r: &mut Rng, real: bool) -> Vec<String> {
    let l = *r.pick(&[65535usize, 65536, 65537, 131073, (1 << 20) + 1]); let d = rand_digits(r, l);
    let chg = |s: &str, k: usize| { let mut x = s.as_bytes().to_vec(); x[k] = if x[k] == b'9' { b'8' } else { x[k] + 1 }; String::from_utf8(x).unwrap() };
    let k_far = if l > 65540 { 65536 + r.usize_below(l - 65536) } else { l - 2 };
    let mut v = vec![d.clone(), chg(&d, l - 1), chg(&d, k_far), format!("{}{d}", "0".repeat(*r.pick(&[1usize, 65536, 70_001]))), format!("{d}0"), d[..l - 1].to_string(), format!("-{d}"), format!("-{}", chg(&d, k_far)), format!("+{d}")];
    if real {
        let mut f = rand_digits(r, l); f.pop(); f.push('7'); let z = *r.pick(&[1usize, 65536, 70_001]);
        v.truncate(5);
        v.extend([format!("1.{f}"), format!("1.{f}{}", "0".repeat(z)), format!("1.{}", chg(&f, k_far.min(l - 2))), format!("{d}.{f}"), format!("{d}.{}", "0".repeat(z)), format!("{}1.{f}", "0".repeat(z)), format!("-1.{f}"), format!("-{d}.{f}")]);
    }
    r.shuffle(&mut v); v
}
fn huge_num_invalid_pool(r: &mut Rng, real: bool) -> Vec<String> {
    let l = *r.pick(&[65537usize, 131073]); let d = rand_digits(r, l); let k = 65536 + r.usize_below(l - 65536);
    let ins = |ch: &str| format!("{}{ch}{}", &d[..k], &d[k..]);
    let mut v = vec![d.clone(), format!("-{d}"), ins("x"), ins(" "), ins("-"), ins("٣"), format!("{d} "), format!("{d}e5"), ins("."), format!("{}.{}.", &d[..k], &d[k..])];
    if real { v.push(format!("{}..{}", &d[..k], &d[k..])); }
    r.shuffle(&mut v); v
}

fn counter_strings(r: &mut Rng, n: usize, shape: usize) -> Vec<String> {
    let mut v: Vec<String> = Vec::with_capacity(n);
    match shape % 4 {
        0 => { for i in 0..n { v.push(format!("k{:x}", (i as u64).wrapping_mul(0x9e37_79b9) % 0xfff_ffff)); } }
        1 => { let heavy = format!("h{:05}", r.below(99999)); for i in 0..n { if i < 66_000 { v.push(heavy.clone()); } else { v.push(format!("h{:05}", r.below(3000) * 33)); } } }
        2 => { for i in 0..n { if i < 66_000 { v.push(String::new()); } else { let m = r.below(8) as u32; v.push(ustr(r, m)); } } }
        _ => { let pre = "shared/prefix/".repeat(1 + r.usize_below(12)); for i in 0..n { let ch = char::from_u32(0x20 + (i as u32 % 0x7c0)).unwrap_or('x'); v.push(format!("{pre}{ch}{}", i / 0x7c0)); } } // full fan-out under one long prefix, keys differ in high bytes
    }
    r.shuffle(&mut v); v
}
const COUNTS: &[usize] = &[65_537, 70_001, 100_003, 131_073];
const LIST_SHAPES: &[&str] = &["distinct", "heavy_dup", "many_empty", "prefix_fanout"];
fn lex_sortedvec_huge(c: &mut Case, shape: usize) -> Res {
    let n = *c.rng.pick(COUNTS); let mut v = counter_strings(&mut c.rng, n, shape); v.sort();
    c.input_str("shape", LIST_SHAPES[shape % 4]); c.input_str("n", &n.to_string()); c.hash_more(show_list(&v[..64]).as_bytes()); c.set_nontrivial(true);
    let mut it = SortedVecLexIterator::new(&v);
    ensure!(it.size_hint() == Some(n), "size_hint", "size_hint={:?}", it.size_hint());
    let mut i = 0usize; while let Some(s) = it.current() { ensure!(i < n && s == v[i], "enumerate_forward", "position {i}: {s:?}"); i += 1; if !it.next().map_err(zerr("next"))? { break; } }
    ensure!(i == n && it.is_at_end(), "enumerate_forward", "forward enumeration yielded {i} of {n}");
    it.seek_end().map_err(zerr("seek_end"))?; let mut i = n; while let Some(s) = it.current() { ensure!(i > 0 && s == v[i - 1], "enumerate_backward", "position {}: {s:?}", i - 1); i -= 1; if !it.prev().map_err(zerr("prev"))? { break; } }
    ensure!(i == 0, "enumerate_backward", "backward enumeration stopped at {i}"); c.ev(2 * n as u64);
    let mut ts: Vec<String> = vec![String::new(), "\u{10ffff}".into()]; for &k in &[0usize, 1, 65534, 65535, 65536, 65537, n / 2, n - 2, n - 1] { let k = k.min(n - 1); ts.push(v[k].clone()); ts.push(format!("{}\0", v[k])); } for _ in 0..60 { ts.push(c.rng.pick(&v).clone()); }
    for t in ts {
        let lb = v.partition_point(|s| s.as_str() < t.as_str()); let ub = v.partition_point(|s| s.as_str() <= t.as_str());
        let exact = it.seek_lower_bound(&t).map_err(zerr("seek_lower_bound"))?;
        ensure!(exact == (lb < n && v[lb] == t), "seek_lower_bound_exact", "seek_lower_bound({t:?}) returned {exact}");
        ensure!(it.current() == v.get(lb).map(|s| s.as_str()), "seek_lower_bound_current", "seek_lower_bound({t:?}): current()={:?} want index {lb}", it.current());
        // position is exact iff the predecessor is the model's predecessor (< target): O(1) instead of counting to the end
        if lb < n && lb > 0 { ensure!(it.prev().map_err(zerr("prev"))? && it.current() == Some(v[lb - 1].as_str()), "seek_lower_bound_pos", "seek_lower_bound({t:?}): predecessor is {:?}, want {:?} (index {})", it.current(), v[lb - 1], lb - 1); }
        it.seek_upper_bound(&t).map_err(zerr("seek_upper_bound"))?;
        ensure!(it.current() == v.get(ub).map(|s| s.as_str()), "seek_upper_bound_pos", "seek_upper_bound({t:?}): current()={:?} want index {ub} ({} duplicates)", it.current(), ub - lb);
        if ub < n && ub > 0 { ensure!(it.prev().map_err(zerr("prev"))? && it.current() == Some(v[ub - 1].as_str()), "seek_upper_bound_pos", "seek_upper_bound({t:?}): predecessor differs"); }
        c.ev(4);
    }
    for pre in ["", "h", "k", "shared/prefix/", &v[n / 2][..v[n / 2].char_indices().nth(2).map_or(v[n / 2].len(), |x| x.0)]] {
        let cnt = zipora::string::utils::lex_utils::count_with_prefix(SortedVecLexIterator::new(&v), pre).map_err(zerr("count_with_prefix"))?; let want = v.iter().filter(|s| s.starts_with(pre)).count();
        ensure!(cnt == want, "count_with_prefix", "count_with_prefix({pre:?})={cnt} want {want}"); if want > 65536 { c.note("prefix_count_gt_64k", 1); } c.ev(1); }
    Ok(())
}
/// > 65 536 lines, lines of 16 KiB / 64 KiB +- 1 (BufReader capacities), CRLF straddling offset 65536, > 1 MiB in total.
fn huge_text(r: &mut Rng, sorted: bool) -> String {
    let n = 66_000 + r.usize_below(6000); let mut lines: Vec<String> = Vec::with_capacity(n + 8);
    for _ in 0..n { lines.push(match r.below(8) { 0 => String::new(), 1 => " ".into(), 2 => "x".into(), 3 => "ab cd,ef".into(), 4 => " \t".into(), _ => { let m = 1 + r.below(7) as u32; ustr(r, m) } }); }
    for l in [16383usize, 16384, 16385, 65535, 65536, 65537, 70_000 + r.usize_below(200_000)] { let ch = (b'a' + r.below(26) as u8) as char; let mut s: String = std::iter::repeat(ch).take(l).collect(); if r.bool() { s.insert(l / 2, ','); s.pop(); } lines.push(s); }
    if sorted { lines.sort(); } else { r.shuffle(&mut lines); let k = lines.iter().position(|l| l.len() == 65535).unwrap(); lines.swap(0, k); }
    let mut t = String::with_capacity(2 << 20); let crlf_first = !sorted;
    for (i, l) in lines.iter().enumerate() { t.push_str(l); if i + 1 == lines.len() && r.bool() { break; } t.push_str(if (i == 0 && crlf_first) || r.chance(1, 3) { "\r\n" } else { "\n" }); }
    t
}

fn join_huge(c: &mut Case, which: u32) -> Res {
    let many = c.rng.bool(); c.input_str("shape", if many { "many_parts" } else { "long_parts" });
    let np = if many { 65_537 + c.rng.usize_below(5000) } else { 2 + c.rng.usize_below(4) };
    let sep: String = if many { (*c.rng.pick(&["", ",", "é", "\0", ", "])).to_string() } else { "-=".repeat(*c.rng.pick(&[0usize, 1, 32768, 32769, 40_000])) };
    let part = |r: &mut Rng| -> String { if many { let m = r.below(8) as u32; if r.chance(1, 3) { String::new() } else { ustr(r, m).chars().take(4).collect() } } else { let l = *r.pick(&[0usize, 65535, 65536, 65537, 300_000]); let ch = *r.pick(&['a', 'é', '世']); std::iter::repeat(ch).take(l / ch.len_utf8()).collect() } };
    c.input_str("np", &np.to_string()); c.input_str("sep_len", &sep.len().to_string()); c.set_nontrivial(true);
    if which == 4 { let parts: Vec<&'static [u8]> = (0..np).map(|_| *c.rng.pick(STATIC_PARTS)).collect(); let owned: Vec<Vec<u8>> = parts.iter().map(|p| p.to_vec()).collect(); c.hash_more(&join_model(b"|", &owned[..64.min(np)]));
        let got = zipora::string::join_bytes_iter(sep.as_bytes(), parts.into_iter()); ensure!(got == join_model(sep.as_bytes(), &owned), "join_bytes_iter", "{np} parts: result of {} bytes differs", got.len()); c.ev(1); return Ok(()); }
    let parts: Vec<String> = (0..np).map(|_| part(&mut c.rng)).collect(); c.hash_more(show_list(&parts[..parts.len().min(64)]).as_bytes());
    let pb: Vec<Vec<u8>> = parts.iter().map(|p| p.clone().into_bytes()).collect(); let want = join_model(sep.as_bytes(), &pb); let refs: Vec<&str> = parts.iter().map(|s| s.as_str()).collect();
    c.note(if want.len() > (1 << 20) { "result_gt_1mib" } else { "result_le_1mib" }, 1);
    match which {
        0 => { let r: Vec<&[u8]> = pb.iter().map(|p| p.as_slice()).collect(); let got = zipora::string::join(sep.as_bytes(), &r); ensure!(got == want, "join", "{np} parts: result of {} bytes differs (want {})", got.len(), want.len()); }
        1 => { let got = zipora::string::join_str(&sep, &refs); ensure!(got.as_bytes() == want.as_slice(), "join_str", "{np} parts: result of {} bytes differs (want {})", got.len(), want.len()); }
        2 => { let fs: Vec<FastStr> = pb.iter().map(|p| FastStr::new(p)).collect(); let got = zipora::string::join_fast_str(&sep, &fs); ensure!(got.as_bytes() == want.as_slice(), "join_fast_str", "{np} parts: result of {} bytes differs (want {})", got.len(), want.len()); }
        3 => { let got = zipora::string::join_iter(&sep, refs.iter()); ensure!(got.as_bytes() == want.as_slice(), "join_iter", "{np} parts: result of {} bytes differs (want {})", got.len(), want.len()); }
        _ => { let mut b = zipora::string::JoinBuilder::with_capacity(&sep, *c.rng.pick(&[0usize, 65537, 131073])); for (i, p) in refs.iter().enumerate() { b.push(p); if i % 16384 == 0 { ensure!(b.len() == i + 1, "join_builder_len", "len after {} pushes = {}", i + 1, b.len()); } }
               ensure!(b.len() == np, "join_builder_len", "len={} want {np}", b.len()); let g = b.build(); ensure!(g.as_bytes() == want.as_slice(), "join_builder", "{np} parts: result of {} bytes differs (want {})", g.len(), want.len()); }
    }
    c.ev(1); Ok(())
}

fn word_huge(c: &mut Case, which: u32) -> Res {
    use zipora::string::{find_word_boundaries, is_word_boundary, word_at_position, word_count, words};
    let shape = c.rng.below(4); let len = huge_len(&mut c.rng).max(70_000); let bshape = c.rng.usize_below(6);
    let t: Vec<u8> = match shape { 0 => { let mut v = Vec::with_capacity(len); while v.len() < len { let l = 1 + c.rng.usize_below(3); for _ in 0..l { v.push(*c.rng.pick(b"abZ09_")); } v.push(*c.rng.pick(b" ,\n\x80")); } v.truncate(len); v }
        1 => { let mut v = vec![b'a'; len]; v[65536] = b' '; v } 2 => { let mut v = vec![b' '; len]; v[65535] = b'w'; v[65536] = b'w'; v[len - 1] = b'z'; v } _ => huge_bytes(&mut c.rng, bshape, len) };
    c.input_str("shape", ["many_words", "giant_word", "sparse_words", "bytes"][shape as usize]); c.input("text", &t); c.set_nontrivial(true); let n = t.len();
    // runs: (start, end) of each maximal word-character run
    let mut runs: Vec<(usize, usize)> = Vec::new(); let mut i = 0; while i < n { if wc(t[i]) { let s = i; while i < n && wc(t[i]) { i += 1; } runs.push((s, i)); } else { i += 1; } }
    c.note(if runs.len() > 65536 { "words_gt_64k" } else { "words_le_64k" }, 1); let maxrun = runs.iter().map(|r| r.1 - r.0).max().unwrap_or(0);
    match which {
        0 => { let model = |p: usize| p == 0 || p >= n || wc(t[p - 1]) != wc(t[p]); for p in 0..n + 3 { ensure!(is_word_boundary(&t, p) == model(p), "is_word_boundary", "pos {p}"); }
            let got = find_word_boundaries(&t); let mut k = 0usize; for p in 0..=n { if model(p) { ensure!(got.get(k) == Some(&p), "find_word_boundaries", "boundary #{k}: got {:?} want {p}", got.get(k)); k += 1; } } ensure!(got.len() == k, "find_word_boundaries", "got {} boundaries want {k}", got.len()); c.ev(n as u64 + k as u64); }
        1 => { let mut k = 0usize; for w in words(&t) { ensure!(k < runs.len() && w == &t[runs[k].0..runs[k].1], "words", "word #{k} differs"); k += 1; } ensure!(k == runs.len(), "words", "words() gave {k} words want {}", runs.len());
            ensure!(word_count(&t) == runs.len(), "word_count", "word_count={} want {}", word_count(&t), runs.len()); c.ev(k as u64 + 1); }
        _ => { let mut ps: Vec<usize> = vec![0, 1, 65534, 65535, 65536, 65537, n - 1, n, n + 1]; let extra = if maxrun > 4096 { 60 } else { 3000 }; for _ in 0..extra { ps.push(c.rng.usize_below(n)); } for r in runs.iter().take(if maxrun > 4096 { 8 } else { 1500 }) { ps.push(r.0); ps.push(r.1 - 1); ps.push(r.1); }
            for p in ps { let want = if p < n && wc(t[p]) { let k = runs.partition_point(|r| r.1 <= p); Some(runs[k]) } else { None }; ensure!(word_at_position(&t, p) == want, "word_at_position", "pos {p}: {:?} want {want:?}", word_at_position(&t, p)); c.ev(1); } }
    }
    Ok(())
}
fn splitter_huge(c: &mut Case, strategy: u32) -> Res {
    let mut sp = match strategy { 0 => LineSplitter::new(), 1 => LineSplitter::new().with_delimiter("::".to_string()), _ => LineSplitter::new().with_optimized_strategy() };
    let d = *c.rng.pick(&[",", "\t", " ", "::", "é"]); let nf = 65_537 + c.rng.usize_below(5000); let big = c.rng.usize_below(nf); let mut line = String::with_capacity(nf * 4 + 70_000);
    for i in 0..nf { if i > 0 { line.push_str(d); } if i == big { line.extend(std::iter::repeat('q').take(65_537)); } else if !c.rng.chance(1, 4) { line.push((b'a' + c.rng.below(26) as u8) as char); if c.rng.chance(1, 8) { line.push('世'); } } }
    if c.rng.bool() { line.push('z'); }
    c.input_str("delim", &format!("{d:?}")); c.input_str("fields", &nf.to_string()); c.hash_more(line.as_bytes()); c.set_nontrivial(true);
    if strategy == 2 && matches!(d, "," | "\t" | " ") { c.note("optimized_path", 1); }
    let got = sp.split(&line, d); let mut k = 0usize; for f in line.split(d) { ensure!(got.get(k).map(|s| s.as_str()) == Some(f), "split_fields", "field #{k} differs: got {:?}", got.get(k).map(|s| s.len())); k += 1; }
    ensure!(got.len() == k, "split_fields", "split gave {} fields want {k}", got.len()); c.ev(k as u64);
    let g2 = sp.split("a", d).len(); ensure!(g2 == 1, "split_fields", "buffer not reset after a huge split: {g2} fields"); Ok(())
}
fn big_ustring(r: &mut Rng, target: usize) -> String { let pieces: Vec<String> = (0..24).map(|_| { let m = 1 + r.below(7) as u32; let mut s = ustr(r, m); if r.chance(1, 3) { s.push(*r.pick(&['\n', '\r', '\0', '\u{1b}', 'Σ', 'ς', 'İ', 'ß', '9', ' '])); } s }).collect(); let mut s = String::with_capacity(target + 256); while s.len() < target { let p: &String = r.pick(&pieces[..]); s.push_str(p); } s }
fn unicode_huge(c: &mut Case, which: u32) -> Res {
    let target = huge_len(&mut c.rng).clamp(70_000, 600_000);
    match which {
        0 => { let s = if c.rng.chance(1, 4) { "x".repeat(target) } else { big_ustring(&mut c.rng, target) }; let mut b = s.into_bytes();
            let kind = c.rng.below(4); match kind { 0 => {} 1 => { let k = 65536 + c.rng.usize_below(b.len() - 65536); b.insert(k, *c.rng.pick(&[0xffu8, 0x80, 0xc0, 0xf8])); } 2 => { b.extend_from_slice(&"世".as_bytes()[..2]); } _ => { b.extend_from_slice("😀".as_bytes()); } }
            c.input_str("kind", ["valid", "bad_byte_beyond_64k", "truncated_tail", "valid_4byte_tail"][kind as usize]); c.input("bytes", &b); c.set_nontrivial(true);
            let want = std::str::from_utf8(&b).ok().map(|s| s.chars().count()); let got = catch(|| zipora::string::validate_utf8_and_count_chars(&b)).map_err(|p| bad("panic", format!("validate_utf8_and_count_chars panicked: {}", p.msg)))?;
            ensure!(got.as_ref().ok().copied() == want, "validate_utf8_and_count_chars", "got {:?} want {want:?} (len {})", got.as_ref().ok(), b.len());
            ensure!(Utf8ToUtf32Iterator::new(&b).is_ok() == want.is_some(), "utf32_iter_validation", "Utf8ToUtf32Iterator::new disagrees with from_utf8"); c.ev(2); }
        1 => { let s = big_ustring(&mut c.rng, target.min(300_000)); c.input_str("s", &format!("{:?}", &s[..s.char_indices().nth(40).map_or(s.len(), |x| x.0)])); c.hash_more(s.as_bytes()); c.set_nontrivial(true);
            let mut it = Utf8ToUtf32Iterator::new(s.as_bytes()).map_err(zerr("Utf8ToUtf32Iterator::new"))?; let mut n = 0usize;
            for (off, ch) in s.char_indices() { ensure!(it.byte_position() == off, "utf32_iter_position", "char #{n}: byte_position={} want {off}", it.byte_position()); let g = it.next_char(); ensure!(g == Some(ch) && it.current() == Some(ch), "utf32_iter_forward", "char #{n}: got {g:?} want {ch:?}"); n += 1; }
            ensure!(it.next_char().is_none() && it.byte_position() == s.len(), "utf32_iter_forward", "not at end after {n} chars");
            for (off, ch) in s.char_indices().rev() { let g = it.prev_char(); ensure!(g == Some(ch) && it.byte_position() == off, "utf32_iter_backward", "at byte {off}: got {g:?} want {ch:?}"); }
            ensure!(it.prev_char().is_none(), "utf32_iter_backward", "prev_char at start returned Some"); c.note(if n > 65536 { "chars_gt_64k" } else { "chars_le_64k" }, 1); c.ev(2 * n as u64); }
        2 => { let s = big_ustring(&mut c.rng, target); c.hash_more(s.as_bytes()); c.input_str("len", &s.len().to_string()); c.set_nontrivial(true);
            let a = UnicodeProcessor::new().analyze(&s); let cnt = |f: &dyn Fn(char) -> bool| s.chars().filter(|&ch| f(ch)).count();
            ensure!(a.byte_count == s.len() && a.char_count == s.chars().count(), "analysis_counts", "bytes={} chars={}", a.byte_count, a.char_count);
            ensure!(a.ascii_count == cnt(&|ch| ch.is_ascii()) && a.alphabetic_count == cnt(&|ch| ch.is_alphabetic()) && a.numeric_count == cnt(&|ch| ch.is_numeric()) && a.whitespace_count == cnt(&|ch| ch.is_whitespace()) && a.control_count == cnt(&|ch| ch.is_control()), "analysis_classes", "got {a:?}");
            ensure!(a.basic_latin + a.latin_supplement + a.extended_latin + a.other_unicode == a.char_count && a.basic_latin == a.ascii_count, "analysis_blocks", "got {a:?}"); c.ev(8); }
        3 => { use zipora::string::utils::unicode_utils::{extract_codepoints, to_lowercase_unicode, to_uppercase_unicode};
            let s = big_ustring(&mut c.rng, target.min(300_000)); c.hash_more(s.as_bytes()); c.input_str("len", &s.len().to_string()); c.set_nontrivial(true);
            ensure!(to_lowercase_unicode(&s) == s.to_lowercase(), "to_lowercase", "differs from str::to_lowercase"); ensure!(to_uppercase_unicode(&s) == s.to_uppercase(), "to_uppercase", "differs from str::to_uppercase");
            let g = UnicodeProcessor::new().with_case_folding(true).process(&s).map_err(zerr("process"))?; ensure!(g == s.to_lowercase(), "process_case_fold", "differs");
            ensure!(extract_codepoints(&s).into_iter().eq(s.chars().map(|ch| ch as u32)), "extract_codepoints", "differs"); c.ev(4); }
        _ => { let mut s = big_ustring(&mut c.rng, target); for _ in 0..c.rng.usize_below(8) { s.push('Q'); } c.hash_more(s.as_bytes()); c.input_str("len", &s.len().to_string()); c.set_nontrivial(true);
            let lo = zipora::string::to_lowercase_ascii_bmi2(&s); ensure!(lo == s.to_ascii_lowercase(), "to_lowercase_ascii", "differs (len {})", s.len());
            let up = zipora::string::to_uppercase_ascii_bmi2(&s); ensure!(up == s.to_ascii_uppercase(), "to_uppercase_ascii", "differs (len {})", s.len()); c.ev(2); }
    }
    Ok(())
}

fn run_huge(ctx: &mut Ctx) {
    let per = ctx.n(1, 12) as u64;
    for (sh, sn) in HUGE_SHAPES.iter().enumerate() {
        for idx in 0..per {
            let rel = (sh + idx as usize * 5 + 1) % 6;
            ctx.case("faststr/cmp", &format!("huge_align/{sn}"), idx, |c| faststr_cmp_huge(c, sh, rel));
            ctx.case("faststr/hash", &format!("huge_align/{sn}"), idx, |c| faststr_hash_huge(c, sh, rel));
            ctx.case("faststr/search", &format!("huge_find/{sn}"), idx, |c| faststr_search_huge(c, sh));
            ctx.case("faststr/slice", &format!("huge_slice/{sn}"), idx, |c| faststr_slice_huge(c, sh));
        } }
    let per = ctx.n(2, 30) as u64;
    for idx in 0..per {
        for (which, t) in ["num/decimal", "num/decimal_with_sign", "num/realnum", "num/realnum_with_sign"].iter().enumerate() {
            ctx.case(t, "huge_digits", idx, |c| { let p = huge_num_pool(&mut c.rng, which >= 2); num_check_pool(c, which as u32, p) });
            if which % 2 == 0 { ctx.case(t, "huge_invalid", idx, |c| { let p = huge_num_invalid_pool(&mut c.rng, which >= 2); num_check_pool(c, which as u32, p) }); }
        }
        for (sh, sn) in LIST_SHAPES.iter().enumerate() {
            if (sh as u64 + idx) % 2 == 1 && ctx.quick() { continue; } // quick: two of the four shapes per idx
            let g = format!("huge_list/{sn}");
            ctx.case("lex/sortedvec", &g, idx, |c| lex_sortedvec_huge(c, sh));
            for (mode, t) in ["strvec/sortable_cmp", "strvec/sortable_radix", "strvec/sortable_bylen", "strvec/sortable_custom", "strvec/sortable_bsearch_block"].iter().enumerate() {
                ctx.case(t, &g, idx, |c| { let n = *c.rng.pick(COUNTS); let l = counter_strings(&mut c.rng, n, sh); sortable_run(c, mode as u32, l) }); }
        }
        // ZoSortedStrVec::get costs O(total bytes) per call on this tree (linear select), so "huge" means: the concatenated data
        // crosses 2^16 / 2^17 / 2^20 bytes (boundary-bit positions beyond those limits) with as many strings as the budget allows.
        for (k, (total, n)) in [(65_537usize, 400usize), (131_073, 250), ((1 << 20) + 1, 70)].iter().enumerate() {
            if ctx.quick() && (k as u64 + idx) % 3 == 2 { continue; }
            for (mode, t) in ["strvec/zo_sorted", "strvec/zo_from_strings", "strvec/zo_from_sortable", "strvec/zo_range"].iter().enumerate() {
                if ctx.quick() && (mode as u64 + idx + k as u64) % 2 == 1 { continue; }
                ctx.case(t, &format!("huge_data/{total}"), idx, |c| { let sh = c.rng.usize_below(4); let mut l = counter_strings(&mut c.rng, *n, sh); for s in l.iter_mut() { let m: usize = s.chars().take(12).map(|ch| ch.len_utf8()).sum(); s.truncate(m); }
                    let have: usize = l.iter().map(|s| s.len() + 1).sum(); let mut need = (total + c.rng.usize_below(64)).saturating_sub(have);
                    let k = 1 + c.rng.usize_below(3); for i in 0..k { let part = if i + 1 == k { need } else { need / 2 }; need -= part; let ch = *c.rng.pick(&['L', 'é', '\u{10ffff}', ' ']); l.push(std::iter::repeat(ch).take(part / ch.len_utf8() + 1).collect()); }
                    c.rng.shuffle(&mut l); zo_run(c, mode as u32, l) }); }
        }
        ctx.case("lex/streaming", "huge_text", idx, |c| { let t = huge_text(&mut c.rng, true); lex_streaming_run(c, t) });
        for (w, t) in ["line/process", "line/batches", "line/batches_stop", "line/count", "line/utils", "line/analyze", "line/secure_cfg"].iter().enumerate() {
            ctx.case(t, "huge_text", idx, |c| { let t = huge_text(&mut c.rng, false); line_run(c, w as u32, t) }); }
        for (w, t) in ["join/bytes", "join/str", "join/fast_str", "join/iter", "join/bytes_iter", "join/builder"].iter().enumerate() { ctx.case(t, "huge_parts", idx, |c| join_huge(c, w as u32)); }
        for (w, t) in ["word/boundary", "word/words", "word/at_position"].iter().enumerate() { ctx.case(t, "huge_text", idx, |c| word_huge(c, w as u32)); }
        for (w, t) in ["line/splitter_simple", "line/splitter_custom", "line/splitter_optimized"].iter().enumerate() { ctx.case(t, "huge_fields", idx, |c| splitter_huge(c, w as u32)); }
        for (w, t) in ["unicode/validate_count", "unicode/utf32_iter", "unicode/analyze", "unicode/case", "case/ascii_bmi2"].iter().enumerate() { ctx.case(t, "huge_mix", idx, |c| unicode_huge(c, w as u32)); }
    }
}
