//! C11 — sorts, merges and set operations produce the mathematically defined result.
//! Oracles: std `sort()` on a copy (multiset equality + sortedness), merge = sort of the concatenation,
//! set operations = counting-based definitions of the textbook two-pointer results, variants compared to the
//! oracle (and therefore to each other).
use crate::ctx::{fail, nopanic, Case, Ctx, Fail, Res};
use crate::gen;
use std::cmp::Ordering;
use std::collections::{BTreeMap, BTreeSet};
use std::fmt::Debug;
use zipora::algorithms::cache_oblivious::{AdaptiveAlgorithmSelector, CacheObliviousConfig, CacheObliviousSort};
use zipora::algorithms::external_sort::{ExternalSort, ReplaceSelectSort, ReplaceSelectSortConfig};
use zipora::algorithms::multiway_merge::{MergeOperations, MultiWayMerge, MultiWayMergeConfig, VectorSource};
use zipora::algorithms::radix_sort::{AdvancedRadixSort, AdvancedRadixSortConfig, KeyValueRadixSort, RadixSort, RadixSortConfig, RadixSortable, RadixString, SortingStrategy};
use zipora::algorithms::set_operations::{SetOperations, SetOperationsConfig};
use zipora::algorithms::set_ops;
use zipora::algorithms::simd_merge::{SimdComparator, SimdConfig, SimdOperations};
use zipora::algorithms::tournament_tree::{EnhancedLoserTree, LoserTreeConfig};
use zipora::algorithms::Algorithm;

fn bad(oracle: &str, d: String) -> Fail { Fail { oracle: oracle.to_string(), detail: d } }
fn le64(v: &[u64]) -> Vec<u8> { v.iter().flat_map(|x| x.to_le_bytes()).collect() }
fn short<T: Debug>(v: &[T]) -> String { if v.len() <= 24 { format!("{v:?}") } else { format!("{:?}..(len {})", &v[..24], v.len()) } }

/// `got` must be the sorted permutation of `orig` (w.r.t. `cmp`, compared through `cmp` only where `exact` is false).
fn check_perm_by<T: Clone + Debug + Ord>(c: &mut Case, what: &str, orig: &[T], got: &[T], cmp: impl Fn(&T, &T) -> Ordering) -> Res {
    c.ev(orig.len().max(1) as u64);
    ensure!(got.len() == orig.len(), "len", "{what}: output has {} elements, input {} (input {})", got.len(), orig.len(), short(orig));
    // multiset equality under the full order of T
    let mut e = orig.to_vec(); e.sort(); let mut g = got.to_vec(); g.sort();
    if e != g { let i = (0..e.len()).find(|&i| e[i] != g[i]).unwrap(); return fail("not_permutation", format!("{what}: multiset changed: sorted output[{i}]={:?} but sorted input[{i}]={:?}; input {} output {}", g[i], e[i], short(orig), short(got))); }
    if let Some(i) = (1..got.len()).find(|&i| cmp(&got[i - 1], &got[i]) == Ordering::Greater) { return fail("not_sorted", format!("{what}: out[{}]={:?} > out[{i}]={:?} (n={}); input {}", i - 1, got[i - 1], got[i], got.len(), short(orig))); }
    Ok(())
}
fn check_perm<T: Clone + Debug + Ord>(c: &mut Case, what: &str, orig: &[T], got: &[T]) -> Res { check_perm_by(c, what, orig, got, |a, b| a.cmp(b)) }

// ---- integer input families ------------------------------------------------------------------
const NFAM: u32 = gen::INT_KINDS + 9;
fn fam_name(f: u32) -> &'static str {
    if f < gen::INT_KINDS { gen::int_kind_name(f) } else { ["all_equal", "reversed", "hi_byte", "hi_word", "sawtooth", "few_distinct", "near_sorted", "hi_low_mix", "organ_pipe"][(f - gen::INT_KINDS) as usize] }
}
/// `bits` = key width (32 or 64, or smaller to bound values)
fn ints(c: &mut Case, fam: u32, n: usize, bits: u32) -> Vec<u64> {
    let mask = if bits >= 64 { u64::MAX } else { (1u64 << bits) - 1 };
    let r = &mut c.rng;
    if fam < gen::INT_KINDS { return gen::ints_kind(r, fam, n, mask); }
    match fam - gen::INT_KINDS {
        0 => { let v = r.next() & mask; vec![v; n] }
        1 => { let mut v: Vec<u64> = (0..n).map(|_| r.next() & mask).collect(); v.sort(); v.reverse(); v }
        2 => { let low = r.next() & (mask >> 8); let sh = bits.saturating_sub(8); (0..n).map(|_| ((r.below(256) << sh) | low) & mask).collect() }
        3 => { let low = r.next() & (mask >> (bits / 2)); let sh = bits / 2; (0..n).map(|_| ((r.next() << sh) | low) & mask).collect() }
        4 => { let p = 1 + r.below(17); let base = if r.bool() { 0 } else { r.next() & (mask >> 1) }; (0..n).map(|i| (base + (i as u64 % p)) & mask).collect() }
        5 => { let vals = [r.next() & mask, r.next() & mask, mask, 0, 1u64 << (bits - 1)]; let k = 2 + r.usize_below(3); (0..n).map(|_| vals[r.usize_below(k)]).collect() }
        6 => { let mut v: Vec<u64> = (0..n).map(|_| r.next() & mask).collect(); v.sort(); if n > 1 { for _ in 0..(1 + n / 50) { let i = r.usize_below(n); let j = r.usize_below(n); v.swap(i, j); } } v }
        7 => (0..n).map(|_| if r.chance(1, 8) { r.next() & mask } else { r.below(1000) }).collect(),
        _ => { let mut v: Vec<u64> = (0..n).map(|_| r.next() & mask).collect(); v.sort(); let (a, b): (Vec<_>, Vec<_>) = v.iter().enumerate().partition(|(i, _)| i % 2 == 0); let mut o: Vec<u64> = a.into_iter().map(|x| *x.1).collect(); o.extend(b.into_iter().rev().map(|x| *x.1)); o }
    }
}
/// length around the given thresholds (t-2..t+2 and 2t-2..2t+2), tiny, or uniform below `max`
fn pick_n(c: &mut Case, thr: &[usize], max: usize) -> usize {
    let r = &mut c.rng;
    let n = match r.below(10) {
        0 => r.usize_below(4),
        1..=3 if !thr.is_empty() => { let t = *r.pick(thr); let m = *r.pick(&[1usize, 1, 2]); let d = r.below(5) as i64 - 2; ((t * m) as i64 + d).max(0) as usize }
        4..=6 => r.usize_below(max.min(200) + 1),
        _ => r.usize_below(max + 1),
    };
    n.min(max)
}
fn pick_bits(c: &mut Case) -> usize { if c.rng.chance(2, 3) { *c.rng.pick(&[4usize, 8, 11, 16]) } else { *c.rng.pick(&[1usize, 2, 3, 5, 6, 7, 9, 10, 12, 13]) } }
fn for_fams(ctx: &mut Ctx, target: &str, per: usize, mut f: impl FnMut(&mut Case, u32) -> Res) {
    for fam in 0..NFAM { for idx in 0..per as u64 { ctx.case(target, fam_name(fam), idx, |c| f(c, fam)); } }
}
macro_rules! lib { ($what:expr, $e:expr) => { match nopanic($what, || $e)? { Ok(x) => x, Err(e) => return Err(bad("sort_err", format!("{} returned Err: {e}", $what))) } } }

// ---- RadixSort ---------------------------------------------------------------------------------
#[derive(Clone, Copy, PartialEq)]
enum RPath { Seq, Par, Count }
fn radix_int(c: &mut Case, fam: u32, wide: bool, path: RPath) -> Res {
    let thr = *c.rng.pick(&[0usize, 1, 2, 3, 8, 33, 100]);
    let cst = *c.rng.pick(&[16usize, 256, 1024, 4096]);
    let cfg = match path {
        RPath::Seq => RadixSortConfig { use_parallel: c.rng.bool(), parallel_threshold: 1 << 40, radix_bits: pick_bits(c), use_counting_sort_threshold: 0, use_simd: c.rng.bool() },
        RPath::Par => RadixSortConfig { use_parallel: true, parallel_threshold: thr, radix_bits: pick_bits(c), use_counting_sort_threshold: 0, use_simd: c.rng.bool() },
        RPath::Count => RadixSortConfig { use_parallel: false, parallel_threshold: 1 << 40, radix_bits: pick_bits(c), use_counting_sort_threshold: cst, use_simd: c.rng.bool() },
    };
    let n = match path { RPath::Seq => pick_n(c, &[16, 256], 3000), RPath::Par => 2 * thr + pick_n(c, &[16, 17], 2500), RPath::Count => pick_n(c, &[cst], cst + 3) };
    // the counting path allocates max+1 counters: values are bounded there (resource use is not this property)
    let bits = if path == RPath::Count { *c.rng.pick(&[4u32, 8, 16, 20]) } else if wide { 64 } else { 32 };
    let data = ints(c, fam, n, bits);
    c.input_str("cfg", &format!("{cfg:?}")); c.input("data", &le64(&data)); c.set_nontrivial(n >= 2);
    if path == RPath::Count { c.note(if n <= cst { "counting" } else { "radix" }, 1); }
    if wide { let mut d = data.clone(); let mut s = RadixSort::with_config(cfg); lib!("sort_u64", s.sort_u64(&mut d)); check_perm(c, "sort_u64", &data, &d) }
    else { let data: Vec<u32> = data.iter().map(|&x| x as u32).collect(); let mut d = data.clone(); let mut s = RadixSort::with_config(cfg); lib!("sort_u32", s.sort_u32(&mut d)); check_perm(c, "sort_u32", &data, &d) }
}

// ---- byte-string families ------------------------------------------------------------------------
const NSFAM: u32 = 10;
fn sfam_name(f: u32) -> &'static str { ["keys", "all_equal", "sorted", "reversed", "common_prefix", "first_byte", "bytes_00_ff", "prefix_gt64", "prefix8_equal", "trailing_zero"][f as usize] }
fn strings(c: &mut Case, fam: u32, n: usize) -> Vec<Vec<u8>> {
    let r = &mut c.rng;
    let mut v: Vec<Vec<u8>> = match fam {
        1 => { let m = r.below(6) as u32; let s = gen::key(r, m); vec![s; n] }
        4 => { let pl = 1 + r.usize_below(40); let p = r.bytes(pl); (0..n).map(|_| { let mut s = p.clone(); let l = r.usize_below(4); for _ in 0..l { s.push(b'a' + r.below(2) as u8); } s }).collect() }
        5 => { let tl = r.usize_below(12); let t = r.bytes(tl); (0..n).map(|_| { let mut s = vec![r.next() as u8]; s.extend_from_slice(&t); s }).collect() }
        6 => (0..n).map(|_| { let l = r.usize_below(5); (0..l).map(|_| if r.bool() { 0u8 } else { 0xff }).collect() }).collect(),
        7 => { let pl = 65 + r.usize_below(60); let p = r.bytes(pl); (0..n).map(|_| { let mut s = p.clone(); let l = r.usize_below(3); for _ in 0..l { s.push(r.next() as u8); } s }).collect() }
        8 => { let p = r.bytes(8); (0..n).map(|_| { let mut s = p.clone(); let l = r.usize_below(4); for _ in 0..l { s.push(r.below(4) as u8 * 85); } s }).collect() }
        9 => { let bl = r.usize_below(6); let b = r.bytes(bl); (0..n).map(|_| { let mut s = b.clone(); if r.chance(1, 4) { s.push(1 + r.below(3) as u8); } let z = r.usize_below(4); for _ in 0..z { s.push(0); } s }).collect() }
        _ => (0..n).map(|_| { let m = r.below(5) as u32; gen::key(r, m) }).collect(),
    };
    if fam == 2 || fam == 3 { v.sort(); } if fam == 3 { v.reverse(); }
    v
}
fn ser_strings(v: &[Vec<u8>]) -> Vec<u8> { let mut o = Vec::new(); for s in v { o.extend_from_slice(&(s.len() as u32).to_le_bytes()); o.extend_from_slice(s); } o }

// ---- AdvancedRadixSort -------------------------------------------------------------------------------
fn adv_cfg(c: &mut Case, force: Option<SortingStrategy>, adaptive: bool, par: bool, simd: bool) -> AdvancedRadixSortConfig {
    let mut cfg = AdvancedRadixSortConfig::default();
    cfg.use_secure_memory = c.rng.chance(1, 5); cfg.adaptive_strategy = adaptive; cfg.force_strategy = force; cfg.use_parallel = par;
    cfg.parallel_threshold = if par { *c.rng.pick(&[0usize, 1, 2, 8, 20, 64]) } else { *c.rng.pick(&[0usize, 16, 10_000]) };
    cfg.num_threads = *c.rng.pick(&[0usize, 0, 1, 2, 3, 5, 16, 40]); cfg.radix_bits = pick_bits(c);
    cfg.insertion_sort_threshold = *c.rng.pick(&[0usize, 1, 4, 16, 100, 100]); cfg.counting_sort_threshold = *c.rng.pick(&[0usize, 16, 1024]);
    cfg.use_simd = simd; cfg.use_work_stealing = c.rng.bool(); cfg.memory_budget = *c.rng.pick(&[0usize, 1024, 65536, 1 << 20, 64 << 20]);
    cfg
}
/// mirrors AdvancedRadixSort::select_strategy (input/config only) so that root-cause tags do not depend on library output
fn predicted_strategy<T: RadixSortable>(cfg: &AdvancedRadixSortConfig, data: &[T]) -> SortingStrategy {
    if let Some(s) = cfg.force_strategy { return s; }
    if !cfg.adaptive_strategy { return SortingStrategy::LsdRadix; }
    if data.len() <= cfg.insertion_sort_threshold { return SortingStrategy::Insertion; }
    let m = data.len().min(1000); let inv = (1..m).filter(|&i| data[i].extract_key() < data[i - 1].extract_key()).count();
    if data.len() < 2 || inv < m / 10 { SortingStrategy::TimSort } else { SortingStrategy::LsdRadix }
}
fn adv_run<T: RadixSortable + Debug>(c: &mut Case, cfg: AdvancedRadixSortConfig, data: &[T]) -> Res {
    c.input_str("cfg", &format!("{cfg:?}"));
    let strat = predicted_strategy(&cfg, data); c.note(&format!("predicted:{strat:?}"), 1);
    if strat == SortingStrategy::LsdRadix {
        let par = cfg.use_parallel && data.len() >= cfg.parallel_threshold && data.len() >= 2 * cfg.parallel_threshold;
        let nt = if cfg.num_threads > 0 { cfg.num_threads } else { 16 };
        let eff = if par { (data.len() + nt - 1) / nt.max(1) } else { data.len() };
        c.note(if par { "lsd_parallel" } else { "lsd_sequential" }, 1);
        let hw = std::arch::is_x86_feature_detected!("avx2") && std::arch::is_x86_feature_detected!("bmi2");
        if cfg.use_simd && hw && eff >= 16 && data.iter().any(|x| x.extract_key() >> 32 != 0) { c.tag("lsd_simd_key_ge_2p32"); }
    }
    let mut s = match nopanic("AdvancedRadixSort::with_config", || AdvancedRadixSort::<T>::with_config(cfg))? { Ok(s) => s, Err(e) => return Err(bad("ctor_err", format!("with_config: {e}"))) };
    let mut d = data.to_vec();
    lib!("AdvancedRadixSort::sort", s.sort(&mut d));
    if !data.is_empty() { c.note(&format!("used:{:?}", s.stats().strategy_used), 1); }
    check_perm(c, "AdvancedRadixSort::sort", data, &d)
}
fn adv_int(c: &mut Case, fam: u32, wide: bool, force: Option<SortingStrategy>, adaptive: bool, par: bool, simd: bool) -> Res {
    let cfg = adv_cfg(c, force, adaptive, par, simd);
    let n = if par { 2 * cfg.parallel_threshold + pick_n(c, &[16, 32, 128], 2500) } else { pick_n(c, &[cfg.insertion_sort_threshold, 16, 100], 3000) };
    let n = if force == Some(SortingStrategy::Insertion) { n.min(1200) } else { n };
    let data = ints(c, fam, n, if wide { 64 } else { 32 });
    c.input("data", &le64(&data)); c.set_nontrivial(n >= 2);
    if wide { adv_run::<u64>(c, cfg, &data) } else { let d: Vec<u32> = data.iter().map(|&x| x as u32).collect(); adv_run::<u32>(c, cfg, &d) }
}
fn adv_str(c: &mut Case, fam: u32, force: Option<SortingStrategy>, adaptive: bool) -> Res {
    let simd = c.rng.bool(); let cfg = adv_cfg(c, force, adaptive, false, simd);
    let n = pick_n(c, &[cfg.insertion_sort_threshold, 100], 600);
    let owned = strings(c, fam, n);
    c.input("strings", &ser_strings(&owned)); c.set_nontrivial(n >= 2);
    // root cause predicate: two different strings with the same 8-byte zero-padded prefix key (extract_key)
    let mut by_key: BTreeMap<u64, &Vec<u8>> = BTreeMap::new();
    for s in &owned { let k = RadixString::new(s).extract_key(); if let Some(o) = by_key.get(&k) { if *o != s { c.tag("str_same_key8"); break; } } else { by_key.insert(k, s); } }
    let data: Vec<RadixString> = owned.iter().map(|s| RadixString::new(s)).collect();
    adv_run(c, cfg, &data)
}


// ---- CacheObliviousSort ------------------------------------------------------------------------------
/// true iff funnel_sort_recursive(n, k0) reaches a call with k == 1 and n > small_threshold (it then recurses on itself forever)
fn funnel_k1(n: usize, k: usize, st: usize) -> bool {
    if n <= st { return false; }
    if k <= 1 { return true; }
    let sk = (k as f64).sqrt() as usize; let chunk = n / k; let last = n - (k - 1) * chunk;
    funnel_k1(chunk, sk, st) || funnel_k1(last, sk, st)
}
fn funnel_width(cfg: &CacheObliviousConfig, n: usize) -> usize { let k = ((cfg.cache_hierarchy.l2_size / cfg.cache_hierarchy.l2_line_size) as f64).sqrt() as usize; k.max(2).min(n.min(64)) }
#[derive(Clone, Copy, PartialEq, Debug)]
enum CoPath { Default, AwareL1, AwareL2, AwareL3, Funnel, Hybrid, Direct }
/// Build a configuration whose (scaled-down) cache sizes steer `n` elements of `esz` bytes into the wanted path.
fn co_cfg(c: &mut Case, path: CoPath, n: usize, esz: usize) -> CacheObliviousConfig {
    let mut cfg = CacheObliviousConfig::default();
    cfg.use_simd = c.rng.bool(); cfg.use_parallel = c.rng.bool();
    let nb = n.max(1) * 8; // the selector assumes 8-byte elements
    let h = &mut cfg.cache_hierarchy;
    match path {
        CoPath::Default => {}
        CoPath::AwareL1 => { h.l1_size = (n.max(1) * esz.max(8)) + c.rng.usize_below(64); h.l2_size = h.l1_size * 4; h.l3_size = h.l2_size * 4; }
        CoPath::AwareL2 => { h.l1_size = nb + c.rng.usize_below(nb / 2 + 1); h.l2_size = n.max(1) * esz + c.rng.usize_below(512); h.l3_size = h.l2_size * 4; }
        CoPath::AwareL3 => { h.l1_size = nb + c.rng.usize_below(nb / 2 + 1); h.l2_size = (n.max(1) * esz).saturating_sub(1 + c.rng.usize_below(8)).max(h.l1_size); h.l3_size = h.l2_size * 4; }
        CoPath::Funnel | CoPath::Direct => { h.l1_size = (nb / (2 + c.rng.usize_below(8))).min(nb - 1); h.l2_size = *c.rng.pick(&[512usize, 1024, 4096, 16384, 65536, 262144, 1 << 20]); h.l3_size = nb.max(h.l2_size) * (1 + c.rng.usize_below(4)); }
        CoPath::Hybrid => { h.l3_size = nb.saturating_sub(1 + c.rng.usize_below(nb / 2 + 1)); h.l1_size = (h.l3_size / 8).min(nb - 1); h.l2_size = if c.rng.bool() { h.l3_size / 2 } else { n.max(1) * esz + 64 }; }
    }
    if h.l2_size < h.l2_line_size { h.l2_size = h.l2_line_size; }
    if path != CoPath::Default { cfg.small_threshold = *c.rng.pick(&[0usize, 1, 2, 7, 16, 64, 300, 1024]); }
    cfg
}
fn co_run<T: Clone + Ord + Debug>(c: &mut Case, path: CoPath, data: &[T], mut cfg: CacheObliviousConfig, want_k1: bool) -> Res {
    let n = data.len(); let esz = std::mem::size_of::<T>();
    let sel = AdaptiveAlgorithmSelector::new(&cfg).select_strategy(n, &cfg.cache_hierarchy);
    let h = &cfg.cache_hierarchy; let nb = n * 8;
    // does the call reach the funnel? (mirrors sort / hybrid_sort, from the configuration only)
    let reaches_funnel = path == CoPath::Direct || (nb > h.l1_size && nb <= h.l3_size) || (nb > h.l3_size && n * esz > h.l2_size);
    let k0 = funnel_width(&cfg, n);
    if reaches_funnel && !want_k1 {
        // keep the generic targets away from the known unbounded recursion (checked by its own target cosort/funnel_k1)
        let mut tries = 0; while funnel_k1(n, k0, cfg.small_threshold) { cfg.small_threshold = if tries < 6 { cfg.small_threshold * 4 + 3 } else { n }; tries += 1; }
    }
    if reaches_funnel && funnel_k1(n, k0, cfg.small_threshold) { c.tag("funnel_k1_unbounded_recursion"); }
    c.input_str("cfg", &format!("{:?} simd={} small_threshold={} esz={esz}", cfg.cache_hierarchy, cfg.use_simd, cfg.small_threshold));
    c.note(&format!("selector:{sel:?}"), 1); if reaches_funnel { c.note(&format!("funnel_k0_{k0}"), 1); c.note(if n > cfg.small_threshold { "funnel_recursive" } else { "funnel_insertion_only" }, 1); }
    else if n * esz <= h.l1_size { c.note("aware_l1", 1); } else if n * esz <= h.l2_size { c.note("aware_l2_quicksort", 1); } else { c.note("aware_l3_mergesort", 1); }
    let mut d = data.to_vec(); let mut s = CacheObliviousSort::with_config(cfg);
    if path == CoPath::Direct { lib!("cache_oblivious_sort", s.cache_oblivious_sort(&mut d)); } else { lib!("CacheObliviousSort::sort", s.sort(&mut d)); }
    check_perm(c, "CacheObliviousSort", data, &d)
}
fn co_case(c: &mut Case, fam: u32, path: CoPath) -> Res {
    let ty = c.rng.below(3); let esz = [8usize, 16, 32][ty as usize];
    let max = match path { CoPath::AwareL1 => 1500, CoPath::AwareL2 => 2500, CoPath::Default => 20000, _ => 5000 };
    let n = if path == CoPath::Default { pick_n(c, &[16, 1024, 4096, 6144, 8192], max) } else { pick_n(c, &[16, 17, 32, 33, 64, 256, 1024], max) };
    let keys = ints(c, fam, n, 64); c.input("data", &le64(&keys)); c.set_nontrivial(n >= 2);
    let cfg = co_cfg(c, path, n, esz);
    match ty { 0 => co_run(c, path, &keys, cfg, false),
        1 => { let d: Vec<(u64, u64)> = keys.iter().enumerate().map(|(i, &k)| (k, i as u64)).collect(); co_run(c, path, &d, cfg, false) }
        _ => { let d: Vec<[u64; 4]> = keys.iter().enumerate().map(|(i, &k)| [k, i as u64 & 1, 0, i as u64]).collect(); co_run(c, path, &d, cfg, false) } }
}

// ---- sorted runs for the merges ------------------------------------------------------------------------
const RUN_FAMS: &[&str] = &["random", "all_equal", "disjoint", "interleaved", "some_empty", "singletons", "hi_word", "dups_across", "skewed"];
fn runs(c: &mut Case, fam: usize, k: usize, maxlen: usize, bits: u32) -> Vec<Vec<u64>> {
    let mask = if bits >= 64 { u64::MAX } else { (1u64 << bits) - 1 }; let r = &mut c.rng;
    let eq = r.next() & mask; let low = r.next() & 0xffff;
    let mut v: Vec<Vec<u64>> = (0..k).map(|w| { let len = match fam { 4 => if r.bool() { 0 } else { r.usize_below(maxlen + 1) }, 5 => r.usize_below(2), 8 => if w == 0 { maxlen } else { r.usize_below(3) }, _ => r.usize_below(maxlen + 1) };
        (0..len).map(|i| match fam { 1 => eq, 2 => ((w * (maxlen + 1) + i) as u64) & mask, 3 => ((i * k + w) as u64) & mask, 6 => ((r.next() << (bits / 2)) | low) & mask, 7 => r.below(6), _ => if r.chance(1, 6) { r.below(20) } else { r.next() & mask } }).collect() }).collect();
    for x in v.iter_mut() { x.sort(); }
    v
}
fn ser_runs(v: &[Vec<u64>]) -> Vec<u8> { let mut o = Vec::new(); for s in v { o.extend_from_slice(&(s.len() as u32).to_le_bytes()); o.extend_from_slice(&le64(s)); } o }
fn pick_k(c: &mut Case) -> usize { if c.rng.chance(3, 4) { c.rng.usize_below(10) } else { *c.rng.pick(&[10usize, 16, 17, 31, 32, 33, 64, 100]) } }
fn merged_oracle(rs: &[Vec<u64>]) -> Vec<u64> { let mut e: Vec<u64> = rs.iter().flatten().copied().collect(); e.sort(); e }
fn check_merge<T: Clone + Debug + Ord>(c: &mut Case, what: &str, exp: &[T], got: &[T]) -> Res {
    c.ev(exp.len().max(1) as u64);
    if got == exp { return Ok(()); }
    ensure!(got.len() == exp.len(), "merge_len", "{what}: merged {} elements, runs hold {}; got {} want {}", got.len(), exp.len(), short(got), short(exp));
    let mut g = got.to_vec(); g.sort();
    if g != exp { return fail("merge_not_union", format!("{what}: multiset differs from the union of the runs; got {} want {}", short(got), short(exp))); }
    fail("merge_not_sorted", format!("{what}: got {} want {}", short(got), short(exp)))
}
macro_rules! libm { ($what:expr, $e:expr) => { match nopanic($what, || $e)? { Ok(x) => x, Err(e) => return Err(bad("merge_err", format!("{} returned Err: {e}", $what))) } } }
fn runs_case(c: &mut Case, k: usize, maxlen: usize, bits: u32) -> (Vec<Vec<u64>>, Vec<u64>) {
    let fam = c.rng.usize_below(RUN_FAMS.len()); let rs = runs(c, fam, k, maxlen, bits);
    c.input_str("runs_family", RUN_FAMS[fam]); c.input("runs", &ser_runs(&rs)); c.hash_more(&(k as u64).to_le_bytes());
    let e = merged_oracle(&rs); c.set_nontrivial(k >= 2 && e.len() >= 2); c.note(&format!("ways_{}", k.min(11)), 1);
    if k == 0 { c.tag("zero_ways"); }
    (rs, e)
}

// ---- ReplaceSelectSort -------------------------------------------------------------------------------
const POISON: u64 = u64::MAX;
/// element whose serialisation fails for one value: an in-contract way to make sort() fail after some runs were written
#[derive(Clone, Debug, PartialEq, Eq, PartialOrd, Ord)]
struct Poisonable(u64);
impl serde::Serialize for Poisonable { fn serialize<S: serde::Serializer>(&self, s: S) -> Result<S::Ok, S::Error> { if self.0 == POISON { Err(serde::ser::Error::custom("value cannot be serialised")) } else { s.serialize_u64(self.0) } } }
impl<'de> serde::Deserialize<'de> for Poisonable { fn deserialize<D: serde::Deserializer<'de>>(d: D) -> Result<Self, D::Error> { <u64 as serde::Deserialize>::deserialize(d).map(Poisonable) } }
fn tmpdir() -> std::io::Result<tempfile::TempDir> { if std::path::Path::new("/dev/shm").is_dir() { tempfile::tempdir_in("/dev/shm") } else { tempfile::tempdir() } }
fn ext_cfg(c: &mut Case, dir: &std::path::Path, esz: usize, elems: usize) -> ReplaceSelectSortConfig {
    ReplaceSelectSortConfig { memory_buffer_size: elems * esz + c.rng.usize_below(esz), temp_dir: dir.to_path_buf(), use_secure_memory: c.rng.chance(1, 4), compress_temp_files: c.rng.bool(),
        merge_ways: 2 + c.rng.usize_below(16), cleanup_temp_files: true }
}
fn ext_elems(c: &mut Case) -> usize { if c.rng.chance(4, 5) { 1 + c.rng.usize_below(8) } else { *c.rng.pick(&[16usize, 64, 1000]) } }



/// Probe: MSD recursion depth of sort_bytes equals the longest common prefix of two strings (one 257-bucket frame per byte).
fn run_bytes_deep(ctx: &mut Ctx) {
    for idx in 0..ctx.n(3, 6) as u64 { ctx.case("radix/bytes_deep", "long_common_prefix", idx, |c| {
        let len = [2_000usize, 20_000, 200_000, 1_000_000, 50_000, 100_000][idx as usize % 6] + c.rng.usize_below(16); let b = c.rng.next() as u8;
        // depth of recursion == common prefix length; >= ~50 000 overflows the 8 MiB main stack (process abort)
        let mut data = vec![vec![b; len], vec![b; len]]; data[0].push(2); data[1].push(1); data.push(vec![b; 3]);
        c.input_str("common_prefix_len", &len.to_string()); c.set_nontrivial(true); if len >= 50_000 { c.tag("bytes_common_prefix_ge_50k"); }
        let mut d = data.clone(); lib!("sort_bytes", RadixSort::new().sort_bytes(&mut d)); check_perm(c, "sort_bytes", &data, &d) }); }
}

fn run_cosort(ctx: &mut Ctx) {
    let per = ctx.n(6, 120);
    for (path, name) in [(CoPath::Default, "default"), (CoPath::AwareL1, "aware_l1"), (CoPath::AwareL2, "aware_l2"), (CoPath::AwareL3, "aware_l3"), (CoPath::Funnel, "funnel"), (CoPath::Hybrid, "hybrid"), (CoPath::Direct, "funnel_direct")] {
        for_fams(ctx, &format!("cosort/{name}"), per, |c, f| co_case(c, f, path));
    }
}
/// Known process-killing defect (stack overflow through unbounded recursion): kept in its own target, last in the run.
fn run_cosort_k1(ctx: &mut Ctx) {
    for idx in 0..ctx.n(2, 4) as u64 { ctx.case("cosort/funnel_k1", "deep", idx, |c| {
        let default_cfg = idx % 2 == 0;
        let (n, cfg) = if default_cfg { (1_100_000 + c.rng.usize_below(1000), CacheObliviousConfig::default()) }
            else { let n = 3000 + c.rng.usize_below(3000); let mut cfg = co_cfg(c, CoPath::Funnel, n, 8); cfg.small_threshold = *c.rng.pick(&[0usize, 1, 2]); (n, cfg) };
        let data = ints(c, 3, n, 64); c.input_str("n", &n.to_string()); c.input("data_head", &le64(&data[..64])); c.set_nontrivial(true);
        co_run(c, if default_cfg { CoPath::Default } else { CoPath::Funnel }, &data, cfg, true) }); }
}

fn run_extsort(ctx: &mut Ctx) {
    let per = ctx.n(4, 60);
    for_fams(ctx, "extsort/rs_u64", per, |c, f| {
        let dir = tmpdir().map_err(|e| bad("__inconclusive", format!("tempdir: {e}")))?; let el = ext_elems(c); let cfg = ext_cfg(c, dir.path(), 8, el);
        let n = pick_n(c, &[el, 2 * el, 16], 300); let data = ints(c, f, n, 64);
        c.input_str("cfg", &format!("buf={} merge_ways={} secure={} compress={}", cfg.memory_buffer_size, cfg.merge_ways, cfg.use_secure_memory, cfg.compress_temp_files)); c.input("data", &le64(&data)); c.set_nontrivial(n >= 2);
        let mut s = ReplaceSelectSort::<u64>::new(cfg); let out = lib!("ReplaceSelectSort::sort", s.sort(data.clone()));
        let runs = s.stats().runs_generated; c.note("runs_total", runs as u64); c.note(if runs >= 2 { "multi_run" } else { "single_run" }, 1);
        check_perm(c, "ReplaceSelectSort::sort", &data, &out)?;
        // the same sorter sorts a second input
        if c.rng.chance(1, 3) { let d2 = ints(c, f, n / 2 + 1, 64); let o2 = lib!("ReplaceSelectSort::sort(2nd)", s.sort(d2.clone())); check_perm(c, "second sort on the same sorter", &d2, &o2)?; }
        Ok(()) });
    for fam in 0..NSFAM { for idx in 0..ctx.n(4, 50) as u64 { ctx.case("extsort/rs_bytes", sfam_name(fam), idx, |c| {
        let dir = tmpdir().map_err(|e| bad("__inconclusive", format!("tempdir: {e}")))?; let el = ext_elems(c); let cfg = ext_cfg(c, dir.path(), std::mem::size_of::<Vec<u8>>(), el);
        let n = pick_n(c, &[el, 2 * el], 200); let data = strings(c, fam, n); c.input_str("buf", &cfg.memory_buffer_size.to_string()); c.input("strings", &ser_strings(&data)); c.set_nontrivial(n >= 2);
        let mut s = ReplaceSelectSort::<Vec<u8>>::new(cfg); let out = lib!("ReplaceSelectSort::sort", s.sort(data.clone())); c.note(if s.stats().runs_generated >= 2 { "multi_run" } else { "single_run" }, 1);
        check_perm(c, "ReplaceSelectSort::sort", &data, &out) }); } }
    for_fams(ctx, "extsort/trait_vec", per, |c, f| {
        let dir = tmpdir().map_err(|e| bad("__inconclusive", format!("tempdir: {e}")))?; let el = ext_elems(c); let cfg = ext_cfg(c, dir.path(), 8, el);
        let n = pick_n(c, &[el, el + 1], 300); let data = ints(c, f, n, 64); c.input_str("buf", &cfg.memory_buffer_size.to_string()); c.input("data", &le64(&data)); c.set_nontrivial(n >= 2);
        c.note(if n * 8 <= cfg.memory_buffer_size { "in_memory" } else { "external" }, 1);
        let mut d = data.clone(); lib!("external_sort_with_config", d.external_sort_with_config(cfg)); check_perm(c, "Vec::external_sort_with_config", &data, &d) });
    for_fams(ctx, "extsort/cmp_key", per, |c, f| {
        let dir = tmpdir().map_err(|e| bad("__inconclusive", format!("tempdir: {e}")))?; let el = ext_elems(c); let cfg = ext_cfg(c, dir.path(), 16, el);
        let n = pick_n(c, &[el, 2 * el], 300); let keys = ints(c, f, n, 64); c.input_str("buf", &cfg.memory_buffer_size.to_string()); c.input("data", &le64(&keys)); c.set_nontrivial(n >= 2);
        let data: Vec<(u64, u32)> = keys.iter().enumerate().map(|(i, &k)| (k, i as u32)).collect();
        let mut s = ReplaceSelectSort::with_comparator(cfg, |a: &(u64, u32), b: &(u64, u32)| a.0.cmp(&b.0)); let out = lib!("ReplaceSelectSort::sort", s.sort(data.clone()));
        check_perm_by(c, "ReplaceSelectSort(with key comparator)", &data, &out, |a, b| a.0.cmp(&b.0)) });
    for_fams(ctx, "extsort/cmp_rev", per, |c, f| {
        let dir = tmpdir().map_err(|e| bad("__inconclusive", format!("tempdir: {e}")))?; let el = ext_elems(c); let cfg = ext_cfg(c, dir.path(), 8, el);
        let n = pick_n(c, &[el, 2 * el], 300); let data = ints(c, f, n, 64); c.input_str("buf", &cfg.memory_buffer_size.to_string()); c.input("data", &le64(&data)); c.set_nontrivial(n >= 2);
        c.tag("comparator_not_natural_order");
        let mut s = ReplaceSelectSort::with_comparator(cfg, |a: &u64, b: &u64| b.cmp(a)); let out = lib!("ReplaceSelectSort::sort", s.sort(data.clone())); c.note(if s.stats().runs_generated >= 2 { "multi_run" } else { "single_run" }, 1);
        check_perm_by(c, "ReplaceSelectSort(reverse comparator)", &data, &out, |a, b| b.cmp(a)) });
    for idx in 0..ctx.n(8, 40) as u64 {
        ctx.case("extsort/buf_lt_elem", "tiny_budget", idx, |c| {
            let dir = tmpdir().map_err(|e| bad("__inconclusive", format!("tempdir: {e}")))?; let mut cfg = ext_cfg(c, dir.path(), 8, 1); cfg.memory_buffer_size = c.rng.usize_below(8);
            let n = 1 + pick_n(c, &[2], 100); let f = c.rng.below(NFAM as u64) as u32; let data = ints(c, f, n, 64); c.input_str("buf", &cfg.memory_buffer_size.to_string()); c.input("data", &le64(&data)); c.set_nontrivial(n >= 2);
            c.tag("memory_budget_lt_one_element");
            let out = lib!("ReplaceSelectSort::sort", ReplaceSelectSort::<u64>::new(cfg).sort(data.clone())); check_perm(c, "ReplaceSelectSort::sort", &data, &out) });
        // a sort() that fails part-way (an element that cannot be written to a run file) must not leak into later sort()
        // calls on the same object: each call returns a sorted permutation of exactly its own input
        ctx.case("extsort/reuse_after_err", "poisoned_then_clean", idx, |c| {
            let dir = tmpdir().map_err(|e| bad("__inconclusive", format!("tempdir: {e}")))?; let el = ext_elems(c).min(64); let mut cfg = ext_cfg(c, dir.path(), 8, el); cfg.cleanup_temp_files = !c.rng.chance(1, 4);
            let n = 2 + pick_n(c, &[el, 2 * el, 8 * el], 200); let f = c.rng.below(NFAM as u64) as u32; let mut d1: Vec<Poisonable> = ints(c, f, n, 63).into_iter().map(|x| Poisonable(x >> 1)).collect();
            let at = match c.rng.below(3) { 0 => n - 1, 1 => n / 2, _ => c.rng.usize_below(n) }; d1[at] = Poisonable(POISON);
            c.input_str("cfg", &format!("buf={} merge_ways={} cleanup={} poison_at={at}/{n}", cfg.memory_buffer_size, cfg.merge_ways, cfg.cleanup_temp_files)); c.set_nontrivial(true);
            let mut s = ReplaceSelectSort::<Poisonable>::new(cfg);
            match nopanic("ReplaceSelectSort::sort(poisoned)", || s.sort(d1.clone()))? { Err(_) => c.note("first_sort_err", 1), Ok(o) => { c.note("first_sort_ok", 1); check_perm(c, "sort of the input holding the unwritable element (never spilled)", &d1, &o)?; } }
            for round in 0..2 { let m = 1 + c.rng.usize_below(2 * n); let f2 = c.rng.below(NFAM as u64) as u32; let d: Vec<Poisonable> = ints(c, f2, m, 63).into_iter().map(|x| Poisonable(x >> 1)).collect();
                let o = lib!("ReplaceSelectSort::sort(after a failed sort)", s.sort(d.clone())); check_perm(c, &format!("sort #{} on the sorter whose first sort hit an unwritable element", round + 2), &d, &o)?; }
            Ok(()) });
        ctx.case("extsort/reuse_nocleanup", "two_sorts", idx, |c| {
            let dir = tmpdir().map_err(|e| bad("__inconclusive", format!("tempdir: {e}")))?; let el = ext_elems(c); let mut cfg = ext_cfg(c, dir.path(), 8, el); cfg.cleanup_temp_files = false;
            let n = 1 + pick_n(c, &[el], 120); let f = c.rng.below(NFAM as u64) as u32; let d1 = ints(c, f, n, 64); let d2 = ints(c, f, 1 + n / 2, 64); c.input("data1", &le64(&d1)); c.input("data2", &le64(&d2)); c.set_nontrivial(n >= 2);
            c.tag("second_sort_without_cleanup");
            let mut s = ReplaceSelectSort::<u64>::new(cfg); let o1 = lib!("ReplaceSelectSort::sort", s.sort(d1.clone())); check_perm(c, "first sort", &d1, &o1)?;
            let o2 = lib!("ReplaceSelectSort::sort(2nd)", s.sort(d2.clone())); check_perm(c, "second sort (cleanup_temp_files=false)", &d2, &o2) });
    }
}

fn run_merges(ctx: &mut Ctx) {
    for (mode, name) in [(0, "heap"), (1, "tournament"), (2, "hier")] { for idx in 0..ctx.n(160, 3000) as u64 { ctx.case(&format!("mwm/{name}"), "runs", idx, |c| {
        let k = if mode == 1 && c.rng.chance(2, 3) { 9 + c.rng.usize_below(30) } else { pick_k(c) }; let (rs, e) = runs_case(c, k, 40, 64);
        let cfg = MultiWayMergeConfig { use_parallel: c.rng.bool(), buffer_size: *c.rng.pick(&[0usize, 1, 64, 65536]), max_merge_ways: if mode == 2 { 1 + c.rng.usize_below(3) } else { 1024 }, use_tournament_tree: mode == 1 };
        c.input_str("cfg", &format!("{cfg:?}")); c.note(if k > cfg.max_merge_ways { "path_hier" } else if mode == 1 && k > 8 { "path_tournament" } else if k >= 2 { "path_heap" } else { "path_trivial" }, 1);
        let src: Vec<VectorSource<u64>> = rs.iter().cloned().map(VectorSource::new).collect();
        let out: Vec<u64> = libm!("MultiWayMerge::merge", MultiWayMerge::with_config(cfg).merge(src)); check_merge(c, "MultiWayMerge::merge", &e, &out) }); } }
    for idx in 0..ctx.n(40, 400) as u64 {
        ctx.case("mwm/execute", "runs_i32", idx, |c| { let k = pick_k(c); let (rs, _) = runs_case(c, k, 30, 32); let rs: Vec<Vec<i32>> = rs.iter().map(|r| { let mut v: Vec<i32> = r.iter().map(|&x| x as u32 as i32).collect(); v.sort(); v }).collect();
            let mut e: Vec<i32> = rs.iter().flatten().copied().collect(); e.sort(); let mut cfg = MultiWayMergeConfig::default(); cfg.use_tournament_tree = c.rng.bool();
            let out = libm!("Algorithm::execute", MultiWayMerge::new().execute(&cfg, rs.clone())); check_merge(c, "MultiWayMerge::execute", &e, &out) });
        ctx.case("mergeops/two", "runs", idx, |c| { let (rs, e) = runs_case(c, 2, 60, 64); let out = nopanic("merge_two", || MergeOperations::merge_two(rs[0].clone(), rs[1].clone()))?; check_merge(c, "merge_two", &e, &out) });
        ctx.case("mergeops/in_place", "runs", idx, |c| { let (rs, e) = runs_case(c, 2, 60, 64); let mut d = rs[0].clone(); d.extend_from_slice(&rs[1]); let mid = rs[0].len(); nopanic("merge_in_place", || MergeOperations::merge_in_place(&mut d, mid))?; check_merge(c, "merge_in_place", &e, &d) });
    }
    // EnhancedLoserTree: k = 0..9 ways (and larger), empty runs included by the run families
    let ks: Vec<usize> = (0..=9).chain([16, 17, 33, 64]).collect();
    for &k in &ks { for idx in 0..ctx.n(18, 400) as u64 {
        let g = format!("k{k}");
        ctx.case("losertree/merge", &g, idx, |c| { let (rs, e) = runs_case(c, k, 30, 64);
            let cfg = LoserTreeConfig { initial_capacity: *c.rng.pick(&[0usize, 1, 64]), use_secure_memory: c.rng.chance(1, 4), stable_sort: c.rng.bool(), cache_optimized: c.rng.bool(), use_simd: c.rng.bool(), prefetch_distance: c.rng.usize_below(4), alignment: 64 };
            c.input_str("cfg", &format!("{cfg:?}")); let mut t = EnhancedLoserTree::<u64>::new(cfg); for r in &rs { libm!("add_way", t.add_way(r.clone().into_iter())); }
            let out = libm!("merge_to_vec", t.merge_to_vec()); check_merge(c, "EnhancedLoserTree::merge_to_vec", &e, &out) });
        ctx.case("losertree/iter", &g, idx, |c| { let (rs, e) = runs_case(c, k, 30, 64); let mut cfg = LoserTreeConfig::default(); cfg.use_secure_memory = false;
            let mut t = EnhancedLoserTree::<u64>::new(cfg); for r in &rs { libm!("add_way", t.add_way(r.clone().into_iter())); }
            if k > 0 { libm!("initialize", t.initialize()); }
            // peek/pop protocol, then the Iterator interface for the rest
            let mut out = Vec::new(); let np = c.rng.usize_below(e.len() + 1);
            for i in 0..np { let p = nopanic("peek", || t.peek().copied())?; ensure!(p == Some(e[i]), "peek_not_min", "peek before pop {i} = {p:?}, want {}", e[i]); match libm!("pop", t.pop()) { Some(v) => out.push(v), None => return fail("merge_len", format!("pop {i} returned None, {} elements remain", e.len() - i)) } }
            let rest: Vec<u64> = nopanic("Iterator::collect", || (&mut t).collect())?; out.extend(rest);
            ensure!(nopanic("is_empty", || t.is_empty())?, "not_empty_after_drain", "is_empty() false after the iterator ended"); check_merge(c, "EnhancedLoserTree pop/iterator", &e, &out) });
    } }
    for idx in 0..ctx.n(60, 800) as u64 {
        // stability as documented by LoserTreeConfig::stable_sort: equal keys come out in way order, and in run order within a way
        ctx.case("losertree/stable", "keyed_pairs", idx, |c| { let k = 1 + pick_k(c); let fam = *c.rng.pick(&[1usize, 7, 7, 0, 4]); let rs = runs(c, fam, k, 20, 64); c.input("runs", &ser_runs(&rs)); c.set_nontrivial(k >= 2);
            let tagged: Vec<Vec<(u64, u32)>> = rs.iter().enumerate().map(|(w, r)| r.iter().enumerate().map(|(i, &x)| (x, (w * 1000 + i) as u32)).collect()).collect();
            let mut e: Vec<(u64, u32)> = tagged.iter().flatten().copied().collect(); e.sort();
            let mut cfg = LoserTreeConfig::default(); cfg.use_secure_memory = false; cfg.stable_sort = true;
            let mut t = EnhancedLoserTree::with_comparator(cfg, |a: &(u64, u32), b: &(u64, u32)| a.0.cmp(&b.0)); for r in &tagged { libm!("add_way", t.add_way(r.clone().into_iter())); }
            let out = libm!("merge_to_vec", t.merge_to_vec()); let mut g = out.clone(); g.sort(); c.ev(e.len() as u64);
            ensure!(g == e, "merge_not_union", "multiset differs: got {} want {}", short(&out), short(&e));
            ensure!(out == e, "merge_not_stable", "stable_sort=true but equal keys left way/run order: got {} want {}", short(&out), short(&e)); Ok(()) });
        ctx.case("losertree/cmp_rev", "runs_desc", idx, |c| { let k = 1 + pick_k(c); let (mut rs, mut e) = runs_case(c, k, 20, 64); for r in rs.iter_mut() { r.reverse(); } e.reverse();
            let mut cfg = LoserTreeConfig::default(); cfg.use_secure_memory = false; let mut t = EnhancedLoserTree::with_comparator(cfg, |a: &u64, b: &u64| b.cmp(a)); for r in &rs { libm!("add_way", t.add_way(r.clone().into_iter())); }
            let out = libm!("merge_to_vec", t.merge_to_vec()); c.ev(e.len() as u64);
            ensure!(out == e, "merge_not_sorted", "descending merge: got {} want {}", short(&out), short(&e)); Ok(()) });
    }
    // SIMD merge (i32)
    for idx in 0..ctx.n(300, 6000) as u64 {
        ctx.case("simd/merge2", "runs_i32", idx, |c| { let fam = c.rng.usize_below(RUN_FAMS.len()); let maxlen = *c.rng.pick(&[3usize, 9, 17, 40, 200]); let rs = runs(c, fam, 2, maxlen, 32);
            let rs: Vec<Vec<i32>> = rs.iter().map(|r| { let mut v: Vec<i32> = r.iter().map(|&x| x as u32 as i32).collect(); v.sort(); v }).collect();
            let cfg = SimdConfig { use_avx2: c.rng.chance(3, 4), use_bmi2: c.rng.bool(), min_vector_size: *c.rng.pick(&[0usize, 1, 4, 8, 8, 64]), prefetch_distance: c.rng.usize_below(4) };
            c.input_str("cfg", &format!("{cfg:?}")); c.input("a", &rs[0].iter().flat_map(|x| x.to_le_bytes()).collect::<Vec<u8>>()); c.input("b", &rs[1].iter().flat_map(|x| x.to_le_bytes()).collect::<Vec<u8>>());
            let total = rs[0].len() + rs[1].len(); c.set_nontrivial(total >= 2); c.note(if cfg.use_avx2 && total >= cfg.min_vector_size * 2 { "simd_path" } else { "scalar_path" }, 1);
            let mut e: Vec<i32> = rs.iter().flatten().copied().collect(); e.sort();
            let out = nopanic("merge_sorted_i32", || SimdComparator::with_config(cfg).merge_sorted_i32(&rs[0], &rs[1]))?; check_merge(c, "merge_sorted_i32", &e, &out) });
        if idx % 2 == 0 { ctx.case("simd/merge_multi", "runs_i32", idx, |c| { let k = pick_k(c); let (rs, _) = runs_case(c, k, 40, 32);
            let rs: Vec<Vec<i32>> = rs.iter().map(|r| { let mut v: Vec<i32> = r.iter().map(|&x| x as u32 as i32).collect(); v.sort(); v }).collect(); let mut e: Vec<i32> = rs.iter().flatten().copied().collect(); e.sort();
            let out = nopanic("merge_multiple_sorted", || SimdOperations::merge_multiple_sorted(rs.clone()))?; check_merge(c, "merge_multiple_sorted", &e, &out) }); }
    }
}

// ---- set_ops.rs (two sorted sequences) -----------------------------------------------------------------
const SET_FAMS: &[&str] = &["overlap_dups", "strict_sets", "disjoint", "identical", "one_empty", "tiny_vs_large", "all_equal", "hi_word", "subset"];
fn sorted_seq(c: &mut Case, len: usize, universe: u64, strict: bool, sh: u32) -> Vec<u32> {
    let mut v: Vec<u32> = (0..len).map(|_| (c.rng.below(universe) as u32) << sh).collect(); v.sort(); if strict { v.dedup(); } v
}
fn set_inputs(c: &mut Case, fam: usize) -> (Vec<u32>, Vec<u32>) {
    let la = c.rng.usize_below(60); let lb = c.rng.usize_below(60); let um = *c.rng.pick(&[3u64, 10, 40, 200]); let u = 1 + c.rng.below(um);
    let (a, b) = match fam {
        1 => (sorted_seq(c, la, u, true, 0), sorted_seq(c, lb, u, true, 0)),
        2 => { let a = sorted_seq(c, la, u, false, 0); let b: Vec<u32> = sorted_seq(c, lb, u, false, 0).iter().map(|x| x + u as u32).collect(); if c.rng.bool() { (a, b) } else { (b, a) } }
        3 => { let a = sorted_seq(c, la, u, false, 0); (a.clone(), a) }
        4 => { let a = sorted_seq(c, la, u, false, 0); if c.rng.bool() { (a, vec![]) } else { (vec![], a) } }
        5 => { let small = c.rng.usize_below(5); let big = 100 + c.rng.usize_below(1500); let uu = *c.rng.pick(&[5u64, 50, 2000]); let a = sorted_seq(c, small, uu, false, 0); let st = c.rng.bool(); let b = sorted_seq(c, big, uu, st, 0); if c.rng.chance(3, 4) { (a, b) } else { (b, a) } }
        6 => { let v = c.rng.next() as u32; (vec![v; la], vec![if c.rng.chance(3, 4) { v } else { v.wrapping_add(1) }; lb]) }
        7 => (sorted_seq(c, la, u.min(30), false, 27), sorted_seq(c, lb, u.min(30), false, 27)),
        8 => { let b = sorted_seq(c, la + lb, u, false, 0); let a: Vec<u32> = b.iter().copied().filter(|_| c.rng.bool()).collect(); if c.rng.bool() { (a, b) } else { (b, a) } }
        _ => (sorted_seq(c, la, u, false, 0), sorted_seq(c, lb, u, false, 0)),
    };
    c.input("a", &a.iter().flat_map(|x| x.to_le_bytes()).collect::<Vec<u8>>()); c.input("b", &b.iter().flat_map(|x| x.to_le_bytes()).collect::<Vec<u8>>());
    c.set_nontrivial(!a.is_empty() && !b.is_empty());
    (a, b)
}
fn counts2(a: &[u32], b: &[u32]) -> BTreeMap<u32, (usize, usize)> { let mut m = BTreeMap::new(); for &x in a { m.entry(x).or_insert((0, 0)).0 += 1; } for &x in b { m.entry(x).or_insert((0, 0)).1 += 1; } m }
fn expand(m: &BTreeMap<u32, (usize, usize)>, f: impl Fn(usize, usize) -> usize) -> Vec<u32> { let mut o = Vec::new(); for (&k, &(x, y)) in m { for _ in 0..f(x, y) { o.push(k); } } o }
fn check_set<T: PartialEq + Debug>(c: &mut Case, class: &str, what: &str, exp: &[T], got: &[T]) -> Res { c.ev(exp.len().max(1) as u64); ensure!(got == exp, class, "{what}: got {} want {}", short(got), short(exp)); Ok(()) }
type P = (u32, u32); // (key, provenance/index) — compared by key only
fn kcmp(a: &P, b: &P) -> Ordering { a.0.cmp(&b.0) }
fn setops_case(c: &mut Case, op: usize, fam: usize) -> Res { let (a, b) = set_inputs(c, fam); setops_check(c, op, a, b) }
fn setops_check(c: &mut Case, op: usize, a: Vec<u32>, b: Vec<u32>) -> Res {
    let m = counts2(&a, &b);
    let pa: Vec<P> = a.iter().enumerate().map(|(i, &k)| (k, i as u32)).collect(); let pb: Vec<P> = b.iter().enumerate().map(|(i, &k)| (k, 100_000 + i as u32)).collect();
    let in_b: BTreeSet<u32> = b.iter().copied().collect(); let in_a: BTreeSet<u32> = a.iter().copied().collect();
    let from_a: Vec<P> = pa.iter().copied().filter(|x| in_b.contains(&x.0)).collect(); let from_b: Vec<P> = pb.iter().copied().filter(|x| in_a.contains(&x.0)).collect();
    let thr = *c.rng.pick(&[0usize, 1, 2, 32, 32, 1000]);
    match op {
        0 => { let g = nopanic("multiset_intersection", || set_ops::multiset_intersection(&pa, &pb, kcmp))?; check_set(c, "intersection", "multiset_intersection (elements of a whose key occurs in b)", &from_a, &g) }
        1 => { let g = nopanic("multiset_1small_intersection", || set_ops::multiset_1small_intersection(&pa, &pb, kcmp))?; check_set(c, "intersection", "multiset_1small_intersection vs linear definition", &from_a, &g) }
        2 => { c.input_str("threshold", &thr.to_string()); c.note(if a.len() * thr < b.len() { "binary_search" } else { "linear" }, 1); let g = nopanic("multiset_fast_intersection", || set_ops::multiset_fast_intersection(&pa, &pb, kcmp, thr))?; check_set(c, "intersection", "multiset_fast_intersection", &from_a, &g) }
        3 => { let g = nopanic("multiset_intersection2", || set_ops::multiset_intersection2(&pa, &pb, kcmp))?; check_set(c, "intersection", "multiset_intersection2 (elements of b whose key occurs in a)", &from_b, &g) }
        4 => { let g = nopanic("multiset_1small_intersection2", || set_ops::multiset_1small_intersection2(&pa, &pb, kcmp))?; check_set(c, "intersection", "multiset_1small_intersection2 vs linear definition", &from_b, &g) }
        5 => { c.input_str("threshold", &thr.to_string()); c.note(if a.len() * thr < b.len() { "binary_search" } else { "linear" }, 1); let g = nopanic("multiset_fast_intersection2", || set_ops::multiset_fast_intersection2(&pa, &pb, kcmp, thr))?; check_set(c, "intersection", "multiset_fast_intersection2", &from_b, &g) }
        6 => { let g = nopanic("multiset_union", || set_ops::multiset_union(&pa, &pb, kcmp))?; let keys: Vec<u32> = g.iter().map(|x| x.0).collect(); check_set(c, "union", "multiset_union keys (all duplicates kept)", &expand(&m, |x, y| x + y), &keys)?;
            let mut all: Vec<P> = pa.iter().chain(pb.iter()).copied().collect(); all.sort(); let mut gs = g.clone(); gs.sort(); check_set(c, "union", "multiset_union elements", &all, &gs) }
        7 => { let g = nopanic("multiset_difference", || set_ops::multiset_difference(&pa, &pb, kcmp))?; let keys: Vec<u32> = g.iter().map(|x| x.0).collect(); check_set(c, "difference", "multiset_difference keys (count_a - count_b each)", &expand(&m, |x, y| x.saturating_sub(y)), &keys)?;
            let sa: BTreeSet<P> = pa.iter().copied().collect(); let sg: BTreeSet<P> = g.iter().copied().collect(); ensure!(sg.len() == g.len() && sg.is_subset(&sa), "difference", "multiset_difference output is not a sub-multiset of a: {}", short(&g)); Ok(()) }
        8 => { let g = nopanic("set_intersection", || set_ops::set_intersection(&a, &b, |x, y| x.cmp(y)))?; check_set(c, "intersection", "set_intersection", &expand(&m, |x, y| (x > 0 && y > 0) as usize), &g) }
        9 => { let g = nopanic("set_union", || set_ops::set_union(&a, &b, |x, y| x.cmp(y)))?; check_set(c, "union", "set_union", &expand(&m, |_, _| 1), &g) }
        10 => { let g = nopanic("set_difference", || set_ops::set_difference(&a, &b, |x, y| x.cmp(y)))?; check_set(c, "difference", "set_difference (unique of the two-pointer multiset difference)", &expand(&m, |x, y| (x > y) as usize), &g) }
        _ => { let mut d = a.clone(); d.extend_from_slice(&b); d.sort(); let mut e = d.clone(); e.dedup(); let mut g = d.clone(); let nl = nopanic("set_unique_default", || set_ops::set_unique_default(&mut g))?; ensure!(nl <= g.len(), "unique", "returned length {nl} > {}", g.len()); let mut all = g.clone(); all.sort(); ensure!(all == d, "unique", "set_unique lost elements of the slice"); g.truncate(nl); check_set(c, "unique", "set_unique_default", &e, &g) }
    }
}
const SETOPS: &[&str] = &["ms_inter", "ms_inter_1small", "ms_inter_fast", "ms_inter2", "ms_inter2_1small", "ms_inter2_fast", "ms_union", "ms_diff", "set_inter", "set_union", "set_diff", "unique"];

// ---- set_operations.rs (k sorted iterators) ------------------------------------------------------------
fn kway_inputs(c: &mut Case, k: usize, strict: bool) -> Vec<Vec<u32>> {
    let um = *c.rng.pick(&[2u64, 6, 20, 100]); let u = 1 + c.rng.below(um); let empty_ok = c.rng.chance(1, 5);
    let v: Vec<Vec<u32>> = (0..k).map(|_| { let len = if empty_ok && c.rng.chance(1, 4) { 0 } else { 1 + c.rng.usize_below(25) }; sorted_seq(c, len, u, strict, 0) }).collect();
    let mut ser = Vec::new(); for w in &v { ser.extend_from_slice(&(w.len() as u32).to_le_bytes()); for x in w { ser.extend_from_slice(&x.to_le_bytes()); } }
    c.input("ways", &ser); c.hash_more(&(k as u64).to_le_bytes()); c.set_nontrivial(k >= 2 && v.iter().all(|w| !w.is_empty()));
    if k == 0 { c.tag("zero_ways"); }
    if v.iter().any(|w| w.windows(2).any(|p| p[0] == p[1])) { c.tag("duplicates_within_a_way"); }
    c.note(&format!("ways_{}", k.min(11)), 1);
    v
}
fn kway_k(c: &mut Case) -> usize { if c.rng.chance(4, 5) { c.rng.usize_below(8) } else { *c.rng.pick(&[8usize, 16, 31, 32, 33, 40]) } }
macro_rules! libs { ($what:expr, $e:expr) => { match nopanic($what, || $e)? { Ok(x) => x, Err(e) => return Err(bad("setop_err", format!("{} returned Err: {e}", $what))) } } }
fn kway_case(c: &mut Case, op: usize, strict: bool) -> Res {
    let k = if op == 5 { 33 + c.rng.usize_below(8) } else if op == 0 { kway_k(c).min(32) } else { kway_k(c) }; let ws = kway_inputs(c, k, strict);
    kway_check(c, op, ws)
}
fn kway_check(c: &mut Case, op: usize, ws: Vec<Vec<u32>>) -> Res {
    let k = ws.len();
    let its = |ws: &Vec<Vec<u32>>| -> Vec<std::vec::IntoIter<u32>> { ws.iter().cloned().map(|w| w.into_iter()).collect() };
    let mut cnt: BTreeMap<u32, Vec<usize>> = BTreeMap::new(); for (i, w) in ws.iter().enumerate() { for &x in w { cnt.entry(x).or_insert_with(|| vec![0; k])[i] += 1; } }
    // multiset intersection of k sequences: each value min-count times (equals "value present in every way" for strict sets)
    let inter: Vec<u32> = if k == 0 { vec![] } else { cnt.iter().flat_map(|(&v, cs)| std::iter::repeat(v).take(*cs.iter().min().unwrap())).collect() };
    match op {
        0 | 1 | 5 => { let cfg = SetOperationsConfig { use_bit_mask_optimization: op != 1, bit_mask_threshold: if op == 5 { 64 } else if op == 1 { *c.rng.pick(&[0usize, 32]) } else { 32 }, count_frequencies: c.rng.bool(), use_simd: c.rng.bool() };
            if op == 5 { c.tag("bitmask_threshold_gt_32_ways"); }
            let mut so = SetOperations::with_config(cfg); let g = libs!("SetOperations::intersection", so.intersection(its(&ws)));
            if k > 0 { let ubm = so.stats().used_bit_mask; c.note(if ubm { "bit_mask" } else { "general" }, 1); }
            check_set(c, "intersection", "k-way intersection", &inter, &g) }
        2 => { let e: Vec<u32> = cnt.keys().copied().collect(); let g = libs!("SetOperations::union", SetOperations::new().union(its(&ws))); check_set(c, "union", "k-way union (unique values)", &e, &g) }
        3 => { let mut e: Vec<u32> = ws.iter().flatten().copied().collect(); e.sort(); let keep_mod = 1 + c.rng.below(3) as u32; c.input_str("keep_mod", &keep_mod.to_string()); let e: Vec<u32> = e.into_iter().filter(|x| x % keep_mod == 0).collect();
            let g = libs!("SetOperations::filter_merge", SetOperations::new().filter_merge(its(&ws), move |x: &u32| x % keep_mod == 0)); check_merge(c, "filter_merge", &e, &g) }
        _ => { let g = libs!("SetOperations::count_frequencies", SetOperations::new().count_frequencies(its(&ws))); let g: BTreeMap<u32, usize> = g.into_iter().collect(); let e: BTreeMap<u32, usize> = cnt.iter().map(|(&v, cs)| (v, cs.iter().sum())).collect(); c.ev(e.len().max(1) as u64);
            ensure!(g == e, "frequencies", "count_frequencies: got {:?} want {:?}", g, e); Ok(()) }
    }
}
fn run_setops(ctx: &mut Ctx) {
    let per = ctx.n(14, 300);
    for (op, name) in SETOPS.iter().enumerate() { for (fam, g) in SET_FAMS.iter().enumerate() { for idx in 0..per as u64 { ctx.case(&format!("setops/{name}"), g, idx, |c| setops_case(c, op, fam)); } } }
    let per = ctx.n(80, 1500);
    for (op, name) in ["inter_bitmask", "inter_general", "union", "filter_merge", "count_freq"].iter().enumerate() { for (strict, g) in [(true, "strict_sets"), (false, "with_dups")] { for idx in 0..per as u64 { ctx.case(&format!("setopsk/{name}"), g, idx, |c| kway_case(c, op, strict)); } } }
    for idx in 0..ctx.n(6, 30) as u64 { ctx.case("setopsk/inter_bitmask_gt32", "strict_sets", idx, |c| kway_case(c, 5, true)); }
}




// ---- huge_ families: > 65 536 and > 10^6 elements through every sorter / merge / set operation -----------------
// Sizes sit just above 16-bit / 20-bit limits; shapes put > 65 535 copies of one value, keys that differ only in the
// high bytes, or long sorted stretches through the sequential AND parallel paths. Oracles stay O(n log n) (std sort).
const HUGE_64K: &[usize] = &[65_535, 65_536, 65_537, 131_071, 131_072, 131_073, 131_074, 196_609, 262_145];
const HUGE_1M: &[usize] = &[1_000_001, 1_048_575, 1_048_576, 1_048_577, 1_200_003];
fn huge_n(c: &mut Case, big: bool) -> usize { *c.rng.pick(if big { HUGE_1M } else { HUGE_64K }) }
fn huge_ints(c: &mut Case, shape: &str, n: usize, bits: u32) -> Vec<u64> {
    let mask = if bits >= 64 { u64::MAX } else { (1u64 << bits) - 1 }; let r = &mut c.rng;
    match shape {
        "full" => (0..n).map(|_| r.next() & mask).collect(),
        "hi_byte" => { let low = r.next() & (mask >> 8); let sh = bits - 8; (0..n).map(|_| ((r.below(256) << sh) | low) & mask).collect() }
        "hi_word" => { let low = r.next() & (mask >> (bits / 2)); let sh = bits / 2; (0..n).map(|_| ((r.next() << sh) | low) & mask).collect() }
        "dominant" => { let v = r.next() & mask; let pc = 60 + r.below(40); (0..n).map(|_| if r.below(100) < pc { v } else { r.next() & mask }).collect() }
        "all_equal" => { let v = r.next() & mask; vec![v; n] }
        "sorted" => { let mut v: Vec<u64> = (0..n).map(|_| r.next() & mask).collect(); v.sort_unstable(); v }
        "reversed" => { let mut v: Vec<u64> = (0..n).map(|_| r.next() & mask).collect(); v.sort_unstable(); v.reverse(); v }
        "period" => { let p = *r.pick(&[2usize, 3, 15, 16, 255, 256, 257]); let pat: Vec<u64> = (0..p).map(|_| r.next() & mask).collect(); (0..n).map(|i| pat[i % p]).collect() }
        "blocks" => { let nb = 2 + r.usize_below(40); let mut v: Vec<u64> = (0..n).map(|_| r.next() & mask).collect(); let bl = n / nb + 1; for ch in v.chunks_mut(bl) { ch.sort_unstable(); } v }
        _ /* near_sorted */ => { let mut v: Vec<u64> = (0..n).map(|_| r.next() & mask).collect(); v.sort_unstable(); for _ in 0..(1 + n / 5000) { let i = r.usize_below(n); let j = r.usize_below(n); v.swap(i, j); } v }
    }
}
const ALL_SHAPES: &[&str] = &["full", "hi_byte", "hi_word", "dominant", "all_equal", "sorted", "reversed", "period", "near_sorted"];
/// one family per (size class, shape): `huge_64k_<shape>` / `huge_1m_<shape>`
fn huge_cases(ctx: &mut Ctx, target: &str, small: &[&str], big: &[&str], mut f: impl FnMut(&mut Case, &str, bool) -> Res) {
    let per = ctx.n(1, 4) as u64;
    for (shapes, is_big) in [(small, false), (big, true)] { for sh in shapes { let g = format!("huge_{}_{sh}", if is_big { "1m" } else { "64k" }); for idx in 0..per { ctx.case(target, &g, idx, |c| f(c, sh, is_big)); } } }
}
fn huge_input(c: &mut Case, data: &[u64]) { c.input_str("n", &data.len().to_string()); c.input("head", &le64(&data[..data.len().min(64)])); let mut h = 0u64; for &x in data { h = (h ^ x).wrapping_mul(0x100000001b3); } c.hash_more(&h.to_le_bytes()); c.set_nontrivial(data.len() >= 2); }

fn huge_radix(c: &mut Case, shape: &str, big: bool, wide: bool, path: RPath) -> Res {
    let n = huge_n(c, big);
    let cfg = match path {
        RPath::Seq => RadixSortConfig { use_parallel: c.rng.bool(), parallel_threshold: 1 << 40, radix_bits: pick_bits(c), use_counting_sort_threshold: 0, use_simd: c.rng.bool() },
        RPath::Par => RadixSortConfig { use_parallel: true, parallel_threshold: *c.rng.pick(&[10_000usize, 10_000, 1000, 32_768]), radix_bits: pick_bits(c), use_counting_sort_threshold: 0, use_simd: c.rng.bool() },
        RPath::Count => RadixSortConfig { use_parallel: false, parallel_threshold: 1 << 40, radix_bits: pick_bits(c), use_counting_sort_threshold: n + c.rng.usize_below(3), use_simd: c.rng.bool() },
    };
    // counting path: values bounded (it allocates max+1 counters); every value then occurs far more than 65 535 times for small widths
    let bits = if path == RPath::Count { *c.rng.pick(&[1u32, 4, 8, 16, 20]) } else if wide { 64 } else { 32 };
    let data = huge_ints(c, shape, n, bits.max(8)); let data: Vec<u64> = if bits < 8 { data.iter().map(|x| x & ((1 << bits) - 1)).collect() } else { data };
    c.input_str("cfg", &format!("{cfg:?}")); huge_input(c, &data); c.note(match path { RPath::Seq => "seq", RPath::Par => "parallel", RPath::Count => "counting" }, 1);
    if wide { let mut d = data.clone(); let mut s = RadixSort::with_config(cfg); lib!("sort_u64", s.sort_u64(&mut d)); check_perm(c, "sort_u64", &data, &d) }
    else { let data: Vec<u32> = data.iter().map(|&x| x as u32).collect(); let mut d = data.clone(); let mut s = RadixSort::with_config(cfg); lib!("sort_u32", s.sort_u32(&mut d)); check_perm(c, "sort_u32", &data, &d) }
}
fn huge_adv(c: &mut Case, shape: &str, big: bool, wide: bool, force: Option<SortingStrategy>, adaptive: bool, par: bool, simd: bool) -> Res {
    let mut cfg = adv_cfg(c, force, adaptive, par, simd); if par && c.rng.bool() { cfg.parallel_threshold = 10_000; }
    let n = huge_n(c, big); let data = huge_ints(c, shape, n, if wide { 64 } else { 32 }); huge_input(c, &data);
    if wide { adv_run::<u64>(c, cfg, &data) } else { let d: Vec<u32> = data.iter().map(|&x| x as u32).collect(); adv_run::<u32>(c, cfg, &d) }
}
fn huge_strings(c: &mut Case, shape: &str, n: usize) -> Vec<Vec<u8>> {
    let r = &mut c.rng;
    let mut v: Vec<Vec<u8>> = match shape {
        "fanout256" => { let pl = r.usize_below(12); let p = r.bytes(pl); (0..n).map(|_| { let mut s = p.clone(); s.push(r.next() as u8); if r.bool() { s.push(r.below(3) as u8); } s }).collect() }
        "short_dups" => (0..n).map(|_| { let l = r.usize_below(3); (0..l).map(|_| b'a' + r.below(2) as u8).collect() }).collect(),
        "shared_prefix" => { let pl = 9 + r.usize_below(40); /* < 64: AdvancedRadixSort's MSD finishes buckets deeper than 64 bytes with a (quadratic) insertion sort */ let p = r.bytes(pl); (0..n).map(|_| { let mut s = p.clone(); for _ in 0..r.usize_below(4) { s.push(r.next() as u8); } s }).collect() }
        _ /* sorted */ => (0..n).map(|_| { let l = r.usize_below(7); r.bytes(l) }).collect(),
    };
    if shape == "sorted" { v.sort_unstable(); }
    v
}
fn huge_str_input(c: &mut Case, v: &[Vec<u8>]) { c.input_str("n", &v.len().to_string()); c.input("head", &ser_strings(&v[..v.len().min(16)])); let mut h = 0u64; for s in v { for &b in s { h = (h ^ b as u64).wrapping_mul(0x100000001b3); } h = h.rotate_left(7); } c.hash_more(&h.to_le_bytes()); c.set_nontrivial(v.len() >= 2); }
fn huge_co(c: &mut Case, shape: &str, big: bool, path: CoPath) -> Res {
    // aware_l2 / aware_l3 are only reachable with elements wider than the 8 bytes the selector assumes
    let n = huge_n(c, big); let pairs = matches!(path, CoPath::AwareL2 | CoPath::AwareL3) || (!big && c.rng.bool()); let esz = if pairs { 16 } else { 8 };
    let keys = huge_ints(c, shape, n, 64); huge_input(c, &keys);
    let mut cfg = co_cfg(c, path, n, esz);
    if path == CoPath::Hybrid { let h = &mut cfg.cache_hierarchy; h.l2_size = h.l2_size.min(n * esz / 2).max(h.l2_line_size); } // keep the (quadratic on sorted input) quicksort branch out of the huge cases
    if pairs { let d: Vec<(u64, u64)> = keys.iter().enumerate().map(|(i, &k)| (k, i as u64)).collect(); co_run(c, path, &d, cfg, true) } else { co_run(c, path, &keys, cfg, true) }
}
fn nofile_limit() -> u64 { let mut r = libc::rlimit { rlim_cur: 0, rlim_max: 0 }; if unsafe { libc::getrlimit(libc::RLIMIT_NOFILE, &mut r) } == 0 { r.rlim_cur as u64 } else { u64::MAX } }
/// Number of runs ReplaceSelectSort::generate_runs produces for `data` with a heap of `b` elements (mirror of its control flow,
/// values only: the heap is ordered by value, not by run) — input-only predicate for the descriptor-limit tag.
fn simulate_runs(data: &[u64], b: usize) -> usize {
    use std::cmp::Reverse; use std::collections::BinaryHeap;
    let b = b.max(1); let mut heap: BinaryHeap<Reverse<(u64, usize, usize)>> = BinaryHeap::new(); let mut it = data.iter().copied(); let mut seq = 0usize;
    for _ in 0..b { if let Some(x) = it.next() { heap.push(Reverse((x, seq, 0))); seq += 1; } else { break; } }
    let (mut cur, mut runs) = (0usize, 0usize);
    while let Some(Reverse((m, _, _))) = heap.pop() {
        let next_is_new = |h: &BinaryHeap<Reverse<(u64, usize, usize)>>, cur: usize| h.peek().map(|e| (e.0).2).unwrap_or(0) > cur;
        if let Some(x) = it.next() { seq += 1; if x >= m { heap.push(Reverse((x, seq, cur))); } else { heap.push(Reverse((x, seq, cur + 1))); if heap.is_empty() || next_is_new(&heap, cur) { runs += 1; cur += 1; } } }
        else if heap.is_empty() || next_is_new(&heap, cur) { runs += 1; cur += 1; }
    }
    runs
}
fn huge_ext_cfg(c: &mut Case, dir: &std::path::Path, esz: usize, elems: usize) -> ReplaceSelectSortConfig { let mut cfg = ext_cfg(c, dir, esz, elems); cfg.use_secure_memory = false; cfg }
/// k sorted runs holding `total` elements altogether
fn huge_runs(c: &mut Case, fam: &str, k: usize, total: usize) -> Vec<Vec<u64>> {
    let r = &mut c.rng; let eq = r.next(); let low = r.next() & 0xffff_ffff;
    let lens: Vec<usize> = match fam { "skewed" => (0..k).map(|w| if w == k / 2 { total * 9 / 10 } else { total / (10 * k.max(2)) + r.usize_below(3) }).collect(),
        "many_ways" => (0..k).map(|_| r.usize_below(3)).collect(), _ => (0..k).map(|w| total / k + (w % 3)).collect() };
    let mut v: Vec<Vec<u64>> = lens.iter().map(|&l| (0..l).map(|_| match fam { "all_equal" => eq, "few_values" => r.below(5), "hi_word" => (r.next() << 32) | low, _ => r.next() }).collect()).collect();
    for x in v.iter_mut() { x.sort_unstable(); }
    v
}
fn huge_runs_case(c: &mut Case, fam: &str, k: usize, total: usize) -> (Vec<Vec<u64>>, Vec<u64>) {
    let rs = huge_runs(c, fam, k, total); let mut e: Vec<u64> = rs.iter().flatten().copied().collect(); e.sort_unstable();
    c.input_str("ways", &k.to_string()); huge_input(c, &e); c.set_nontrivial(k >= 2 && e.len() >= 2); c.note(&format!("ways_{}", k.min(11)), 1);
    (rs, e)
}
const RUN_SHAPES: &[&str] = &["full", "all_equal", "few_values", "hi_word", "skewed"];
fn huge_sorted_u32(c: &mut Case, len: usize, universe: u64, strict: bool) -> Vec<u32> {
    if strict { let gap = (u32::MAX as u64 / (len as u64 + 1)).max(1).min(universe.max(1)); let mut cur = 0u64; (0..len).map(|_| { cur += 1 + c.rng.below(gap); cur.min(u32::MAX as u64) as u32 }).collect::<BTreeSet<u32>>().into_iter().collect() }
    else { let mut v: Vec<u32> = (0..len).map(|_| c.rng.below(universe) as u32).collect(); v.sort_unstable(); v }
}
const HSET_FAMS: &[&str] = &["few_values", "overlap", "strict", "tiny_vs_huge", "identical", "all_equal"];
fn huge_set_inputs(c: &mut Case, fam: &str, big: bool) -> (Vec<u32>, Vec<u32>) {
    let n = huge_n(c, big); let m = if c.rng.bool() { huge_n(c, false) } else { n };
    let (a, b) = match fam {
        "few_values" => (huge_sorted_u32(c, n, 3, false), huge_sorted_u32(c, m, 4, false)),
        "strict" => (huge_sorted_u32(c, n, 40, true), huge_sorted_u32(c, m, 40, true)),
        "tiny_vs_huge" => { let t = c.rng.usize_below(6); let u = *c.rng.pick(&[7u64, 5000, 1 << 31]); let a = huge_sorted_u32(c, t, u, false); let b = huge_sorted_u32(c, n, u, false); if c.rng.chance(3, 4) { (a, b) } else { (b, a) } }
        "identical" => { let a = huge_sorted_u32(c, n, 50_000, false); (a.clone(), a) }
        "all_equal" => { let v = c.rng.next() as u32; (vec![v; n], vec![if c.rng.chance(3, 4) { v } else { v.wrapping_add(1) }; m]) }
        _ => { let u = *c.rng.pick(&[5000u64, 200_000]); (huge_sorted_u32(c, n, u, false), huge_sorted_u32(c, m, u, false)) }
    };
    c.input_str("sizes", &format!("{}x{}", a.len(), b.len())); let mut h = 0u64; for &x in a.iter().chain(b.iter()) { h = (h ^ x as u64).wrapping_mul(0x100000001b3); } c.hash_more(&h.to_le_bytes());
    c.input("a_head", &a.iter().take(32).flat_map(|x| x.to_le_bytes()).collect::<Vec<u8>>()); c.set_nontrivial(!a.is_empty() && !b.is_empty());
    (a, b)
}
fn huge_kway_inputs(c: &mut Case, fam: &str, big: bool) -> Vec<Vec<u32>> {
    let total = huge_n(c, big); let k = 2 + c.rng.usize_below(7); let u = match fam { "few_values" => 3, "strict" => 0, _ => 20_000 };
    let ws: Vec<Vec<u32>> = (0..k).map(|w| { let len = if fam == "skewed" && w > 0 { 1 + c.rng.usize_below(50) } else { total / k + w }; if fam == "strict" { huge_sorted_u32(c, len, 6, true) } else { huge_sorted_u32(c, len, if fam == "skewed" { 60 } else { u }, false) } }).collect();
    c.input_str("ways", &format!("{:?}", ws.iter().map(|w| w.len()).collect::<Vec<_>>())); let mut h = 0u64; for w in &ws { for &x in w { h = (h ^ x as u64).wrapping_mul(0x100000001b3); } } c.hash_more(&h.to_le_bytes());
    c.set_nontrivial(true); if ws.iter().any(|w| w.windows(2).any(|p| p[0] == p[1])) { c.tag("duplicates_within_a_way"); } c.note(&format!("ways_{}", k.min(11)), 1);
    ws
}

fn run_huge(ctx: &mut Ctx) {
    use SortingStrategy::*;
    const LIN: &[&str] = &["sorted", "all_equal", "near_sorted"];            // shapes on which insertion sort stays linear
    const BIG3: &[&str] = &["full", "hi_byte", "dominant"];
    const BIG2: &[&str] = &["full", "hi_word"];
    // RadixSort
    for (wide, w) in [(false, "u32"), (true, "u64")] {
        huge_cases(ctx, &format!("radix/{w}_seq"), ALL_SHAPES, BIG3, |c, sh, big| huge_radix(c, sh, big, wide, RPath::Seq));
        huge_cases(ctx, &format!("radix/{w}_par"), ALL_SHAPES, BIG3, |c, sh, big| huge_radix(c, sh, big, wide, RPath::Par));
    }
    huge_cases(ctx, "radix/u32_counting", &["full", "dominant", "period"], &["full", "all_equal"], |c, sh, big| huge_radix(c, sh, big, false, RPath::Count));
    huge_cases(ctx, "radix/bytes", &["fanout256", "short_dups", "shared_prefix", "sorted"], &["short_dups"], |c, sh, big| {
        let n = huge_n(c, big); let data = huge_strings(c, sh, n); huge_str_input(c, &data); let mut d = data.clone(); lib!("sort_bytes", RadixSort::new().sort_bytes(&mut d)); check_perm(c, "sort_bytes", &data, &d) });
    // two long identical halves followed by a differing byte: X c, X d, X with |X| >= 64 KiB
    for idx in 0..ctx.n(2, 8) as u64 { ctx.case("radix/bytes", "huge_xcxd", idx, |c| { let l = *c.rng.pick(&[65_536usize, 65_537, 131_073, 1_048_577]); let x = if c.rng.bool() { vec![c.rng.next() as u8; l] } else { let p = c.rng.bytes(7); (0..l).map(|i| p[i % 7]).collect() };
        let mut data = vec![x.clone(), x.clone(), x.clone(), x[..l - 1].to_vec()]; data[0].push(200); data[1].push(100); c.rng.shuffle(&mut data); c.input_str("x_len", &l.to_string()); c.input("x_head", &x[..32]); c.set_nontrivial(true);
        let mut d = data.clone(); lib!("sort_bytes", RadixSort::new().sort_bytes(&mut d)); check_perm(c, "sort_bytes", &data, &d) }); }
    // KeyValueRadixSort: few distinct keys (one key > 65 535 times); the element lookup is quadratic for distinct keys, so those stay out
    for (wide, w) in [(false, "u32"), (true, "u64")] { huge_cases(ctx, &format!("kv/{w}"), &["all_equal", "period"], &["period"], |c, sh, big| {
        let n = huge_n(c, big); let keys = if sh == "period" { let p = 2 + c.rng.usize_below(3); let pat: Vec<u64> = (0..p).map(|_| c.rng.next() >> if wide { 0 } else { 32 }).collect(); (0..n).map(|i| pat[i % p]).collect() } else { huge_ints(c, sh, n, if wide { 64 } else { 32 }) };
        huge_input(c, &keys); c.tag("kv_duplicate_keys");
        if wide { let data: Vec<(u64, u32)> = keys.iter().enumerate().map(|(i, &k)| (k, i as u32)).collect(); let mut d = data.clone(); lib!("sort_by_key", KeyValueRadixSort::<u64, u32>::new().sort_by_key(&mut d)); check_perm_by(c, "sort_by_key", &data, &d, |a, b| a.0.cmp(&b.0)) }
        else { let data: Vec<(u32, u32)> = keys.iter().enumerate().map(|(i, &k)| (k as u32, i as u32)).collect(); let mut d = data.clone(); lib!("sort_by_key", KeyValueRadixSort::<u32, u32>::new().sort_by_key(&mut d)); check_perm_by(c, "sort_by_key", &data, &d, |a, b| a.0.cmp(&b.0)) } }); }
    // AdvancedRadixSort
    for (wide, w) in [(false, "u32"), (true, "u64")] {
        huge_cases(ctx, &format!("adv/{w}_auto"), ALL_SHAPES, BIG3, |c, sh, big| { let simd = c.rng.bool(); huge_adv(c, sh, big, wide, None, true, false, simd) });
        huge_cases(ctx, &format!("adv/{w}_insertion"), LIN, &["sorted", "all_equal"], |c, sh, big| huge_adv(c, sh, big, wide, Some(Insertion), true, false, false));
        huge_cases(ctx, &format!("adv/{w}_timsort"), &["full", "hi_byte", "dominant", "reversed"], BIG2, |c, sh, big| huge_adv(c, sh, big, wide, Some(TimSort), true, false, false));
        huge_cases(ctx, &format!("adv/{w}_msd"), ALL_SHAPES, BIG3, |c, sh, big| huge_adv(c, sh, big, wide, Some(MsdRadix), true, false, false));
        for (simd, sn) in [(false, "scalar"), (true, "simd")] {
            huge_cases(ctx, &format!("adv/{w}_lsd_{sn}"), ALL_SHAPES, BIG3, |c, sh, big| huge_adv(c, sh, big, wide, Some(LsdRadix), false, false, simd));
            huge_cases(ctx, &format!("adv/{w}_lsd_par_{sn}"), ALL_SHAPES, BIG3, |c, sh, big| huge_adv(c, sh, big, wide, Some(LsdRadix), true, true, simd));
        }
    }
    for (force, name, small, big) in [(None, "auto", &["fanout256", "short_dups", "shared_prefix", "sorted"][..], &["short_dups"][..]), (Some(Insertion), "insertion", &["sorted"][..], &[][..]), (Some(TimSort), "timsort", &["fanout256", "shared_prefix"][..], &[][..]),
        (Some(LsdRadix), "lsd", &["fanout256", "short_dups", "shared_prefix"][..], &[][..]), (Some(MsdRadix), "msd", &["fanout256", "short_dups", "shared_prefix", "sorted"][..], &["fanout256"][..])] {
        huge_cases(ctx, &format!("adv/str_{name}"), small, big, |c, sh, is_big| { let simd = c.rng.bool(); let cfg = adv_cfg(c, force, true, false, simd); let n = huge_n(c, is_big); let owned = huge_strings(c, sh, n); huge_str_input(c, &owned);
            let data: Vec<RadixString> = owned.iter().map(|s| RadixString::new(s)).collect(); adv_run(c, cfg, &data) });
    }
    // CacheObliviousSort (aware_l1 = insertion sort: linear shapes only; aware_l2 = Lomuto quicksort: shapes without long equal/sorted stretches)
    huge_cases(ctx, "cosort/default", ALL_SHAPES, &["full", "hi_byte", "dominant", "sorted"], |c, sh, big| huge_co(c, sh, big, CoPath::Default));
    huge_cases(ctx, "cosort/aware_l1", LIN, &["sorted", "all_equal"], |c, sh, big| huge_co(c, sh, big, CoPath::AwareL1));
    huge_cases(ctx, "cosort/aware_l2", &["full", "hi_word", "hi_byte"], &["full"], |c, sh, big| huge_co(c, sh, big, CoPath::AwareL2));
    huge_cases(ctx, "cosort/aware_l3", ALL_SHAPES, BIG3, |c, sh, big| huge_co(c, sh, big, CoPath::AwareL3));
    for (path, name) in [(CoPath::Funnel, "funnel"), (CoPath::Hybrid, "hybrid"), (CoPath::Direct, "funnel_direct")] { huge_cases(ctx, &format!("cosort/{name}"), ALL_SHAPES, BIG3, |c, sh, big| huge_co(c, sh, big, path)); }
    // ReplaceSelectSort: shapes that keep the number of runs (= simultaneously open files, linear-scan merge ways) small; runs themselves exceed 65 536 elements
    const EXT_SMALL: &[&str] = &["sorted", "all_equal", "near_sorted", "blocks"]; const EXT_BIG: &[&str] = &["sorted", "blocks"];
    huge_cases(ctx, "extsort/rs_u64", EXT_SMALL, EXT_BIG, |c, sh, big| {
        let dir = tmpdir().map_err(|e| bad("__inconclusive", format!("tempdir: {e}")))?; let n = huge_n(c, big); let el = *c.rng.pick(&[1usize, 7, 1000, 65_537, 200_000]);
        let cfg = huge_ext_cfg(c, dir.path(), 8, el); let data = huge_ints(c, sh, n, 64); c.input_str("buf", &cfg.memory_buffer_size.to_string()); huge_input(c, &data);
        let mut s = ReplaceSelectSort::<u64>::new(cfg); let out = lib!("ReplaceSelectSort::sort", s.sort(data.clone())); let runs = s.stats().runs_generated; c.note("runs_total", runs as u64); c.note(if runs >= 2 { "multi_run" } else { "single_run" }, 1);
        check_perm(c, "ReplaceSelectSort::sort", &data, &out) });
    huge_cases(ctx, "extsort/trait_vec", &["sorted", "blocks", "near_sorted"], &["blocks"], |c, sh, big| {
        let dir = tmpdir().map_err(|e| bad("__inconclusive", format!("tempdir: {e}")))?; let n = huge_n(c, big); let el = *c.rng.pick(&[7usize, 65_537, 300_000, 2_000_000]);
        let cfg = huge_ext_cfg(c, dir.path(), 8, el); let data = huge_ints(c, sh, n, 64); c.input_str("buf", &cfg.memory_buffer_size.to_string()); huge_input(c, &data); c.note(if n * 8 <= cfg.memory_buffer_size { "in_memory" } else { "external" }, 1);
        let mut d = data.clone(); lib!("external_sort_with_config", d.external_sort_with_config(cfg)); check_perm(c, "Vec::external_sort_with_config", &data, &d) });
    // Random input: run generation degenerates to runs of ~2 elements whatever the buffer, and merge_runs opens every run file at once
    // (merge_ways is not honoured). n = 20 000 stays below this sandbox's descriptor limit, n = 50 000 does not.
    for (g, n) in [("huge_runs_10k", 20_000usize), ("huge_runs_25k", 50_000)] { for idx in 0..ctx.n(1, 3) as u64 { ctx.case("extsort/many_runs", g, idx, |c| {
        let dir = tmpdir().map_err(|e| bad("__inconclusive", format!("tempdir: {e}")))?; let el = *c.rng.pick(&[1usize, 64, 2048, 8192]); let cfg = huge_ext_cfg(c, dir.path(), 8, el); let b = cfg.memory_buffer_size / 8;
        let extra = c.rng.usize_below(100); let data = huge_ints(c, "full", n + extra, 64); c.input_str("buf", &cfg.memory_buffer_size.to_string()); huge_input(c, &data);
        let runs = simulate_runs(&data, b); c.note("predicted_runs", runs as u64); let lim = nofile_limit(); if runs as u64 + 64 > lim { c.tag("runs_exceed_open_file_limit"); }
        let mut s = ReplaceSelectSort::<u64>::new(cfg); let out = lib!("ReplaceSelectSort::sort", s.sort(data.clone())); c.note("runs_total", s.stats().runs_generated as u64);
        check_perm(c, "ReplaceSelectSort::sort", &data, &out) }); } }
    huge_cases(ctx, "extsort/cmp_key", &["sorted", "blocks", "all_equal"], &[], |c, sh, big| {
        let dir = tmpdir().map_err(|e| bad("__inconclusive", format!("tempdir: {e}")))?; let n = huge_n(c, big); let el = *c.rng.pick(&[3usize, 1000, 70_000]); let cfg = huge_ext_cfg(c, dir.path(), 16, el);
        let keys = huge_ints(c, sh, n, 64); huge_input(c, &keys); let data: Vec<(u64, u32)> = keys.iter().enumerate().map(|(i, &k)| (k, i as u32)).collect();
        let mut s = ReplaceSelectSort::with_comparator(cfg, |a: &(u64, u32), b: &(u64, u32)| a.0.cmp(&b.0)); let out = lib!("ReplaceSelectSort::sort", s.sort(data.clone())); check_perm_by(c, "ReplaceSelectSort(with key comparator)", &data, &out, |a, b| a.0.cmp(&b.0)) });
    huge_cases(ctx, "extsort/rs_bytes", &["sorted"], &[], |c, sh, big| {
        let dir = tmpdir().map_err(|e| bad("__inconclusive", format!("tempdir: {e}")))?; let n = huge_n(c, big); let el = *c.rng.pick(&[2usize, 1000, 70_000]); let cfg = huge_ext_cfg(c, dir.path(), 24, el);
        let data = huge_strings(c, sh, n); huge_str_input(c, &data); let out = lib!("ReplaceSelectSort::sort", ReplaceSelectSort::<Vec<u8>>::new(cfg).sort(data.clone())); check_perm(c, "ReplaceSelectSort::sort", &data, &out) });
    // merges: > 65 536 / > 10^6 elements in total, one run longer than 65 536, and > 65 536 ways for the heap merge
    for (mode, name) in [(0, "heap"), (1, "tournament"), (2, "hier")] {
        huge_cases(ctx, &format!("mwm/{name}"), RUN_SHAPES, &["full", "few_values", "skewed"], |c, sh, big| { let k = if mode == 1 { 9 + c.rng.usize_below(24) } else { 2 + c.rng.usize_below(15) }; let total = huge_n(c, big); let (rs, e) = huge_runs_case(c, sh, k, total);
            let cfg = MultiWayMergeConfig { use_parallel: c.rng.bool(), buffer_size: 65536, max_merge_ways: if mode == 2 { 1 + c.rng.usize_below(3) } else { 1024 }, use_tournament_tree: mode == 1 };
            let src: Vec<VectorSource<u64>> = rs.into_iter().map(VectorSource::new).collect(); let out: Vec<u64> = libm!("MultiWayMerge::merge", MultiWayMerge::with_config(cfg).merge(src)); check_merge(c, "MultiWayMerge::merge", &e, &out) });
        if mode != 1 { for idx in 0..ctx.n(1, 4) as u64 { ctx.case(&format!("mwm/{name}"), "huge_many_ways", idx, |c| { let k = *c.rng.pick(&[65_536usize, 65_537, 70_001, 131_073]); let (rs, e) = huge_runs_case(c, "many_ways", k, 0);
            let cfg = MultiWayMergeConfig { use_parallel: false, buffer_size: 64, max_merge_ways: if mode == 2 { 1024 } else { 1 << 20 }, use_tournament_tree: false };
            let src: Vec<VectorSource<u64>> = rs.into_iter().map(VectorSource::new).collect(); let out: Vec<u64> = libm!("MultiWayMerge::merge", MultiWayMerge::with_config(cfg).merge(src)); check_merge(c, "MultiWayMerge::merge", &e, &out) }); } }
    }
    huge_cases(ctx, "mergeops/two", &["full", "few_values", "skewed"], &["full"], |c, sh, big| { let total = huge_n(c, big); let (rs, e) = huge_runs_case(c, sh, 2, total); let mut it = rs.into_iter(); let (a, b) = (it.next().unwrap(), it.next().unwrap()); let out = nopanic("merge_two", || MergeOperations::merge_two(a, b))?; check_merge(c, "merge_two", &e, &out) });
    huge_cases(ctx, "mergeops/in_place", &["full", "few_values", "skewed"], &["full"], |c, sh, big| { let total = huge_n(c, big); let (rs, e) = huge_runs_case(c, sh, 2, total); let mut d = rs[0].clone(); d.extend_from_slice(&rs[1]); let mid = rs[0].len(); nopanic("merge_in_place", || MergeOperations::merge_in_place(&mut d, mid))?; check_merge(c, "merge_in_place", &e, &d) });
    huge_cases(ctx, "losertree/merge", RUN_SHAPES, &["full", "skewed"], |c, sh, big| { let k = 1 + c.rng.usize_below(16); let total = huge_n(c, big); let (rs, e) = huge_runs_case(c, sh, k, total); let mut cfg = LoserTreeConfig::default(); cfg.use_secure_memory = false; cfg.stable_sort = c.rng.bool();
        let mut t = EnhancedLoserTree::<u64>::new(cfg); for r in rs { libm!("add_way", t.add_way(r.into_iter())); } let out = libm!("merge_to_vec", t.merge_to_vec()); check_merge(c, "EnhancedLoserTree::merge_to_vec", &e, &out) });
    huge_cases(ctx, "losertree/iter", &["full", "few_values", "skewed"], &[], |c, sh, big| { let k = 1 + c.rng.usize_below(9); let total = huge_n(c, big); let (rs, e) = huge_runs_case(c, sh, k, total); let mut cfg = LoserTreeConfig::default(); cfg.use_secure_memory = false;
        let mut t = EnhancedLoserTree::<u64>::new(cfg); for r in rs { libm!("add_way", t.add_way(r.into_iter())); } libm!("initialize", t.initialize()); let out: Vec<u64> = nopanic("Iterator::collect", || (&mut t).collect())?; check_merge(c, "EnhancedLoserTree iterator", &e, &out) });
    huge_cases(ctx, "losertree/stable", &["few_values", "all_equal"], &[], |c, sh, big| { let k = 2 + c.rng.usize_below(6); let total = huge_n(c, big); let rs = huge_runs(c, sh, k, total); c.input_str("ways", &k.to_string()); c.input_str("total", &total.to_string()); c.set_nontrivial(true);
        let tagged: Vec<Vec<(u64, u32)>> = rs.iter().enumerate().map(|(w, r)| r.iter().enumerate().map(|(i, &x)| (x, (w * 1_000_000 + i) as u32)).collect()).collect(); let mut e: Vec<(u64, u32)> = tagged.iter().flatten().copied().collect(); e.sort_unstable();
        let mut cfg = LoserTreeConfig::default(); cfg.use_secure_memory = false; cfg.stable_sort = true; let mut t = EnhancedLoserTree::with_comparator(cfg, |a: &(u64, u32), b: &(u64, u32)| a.0.cmp(&b.0)); for r in tagged { libm!("add_way", t.add_way(r.into_iter())); }
        let out = libm!("merge_to_vec", t.merge_to_vec()); c.ev(e.len() as u64); ensure!(out.len() == e.len(), "merge_len", "merged {} of {}", out.len(), e.len()); ensure!(out == e, "merge_not_stable", "stable_sort=true but equal keys left way/run order (or multiset differs)"); Ok(()) });
    huge_cases(ctx, "simd/merge2", &["full", "few_values", "skewed", "all_equal"], &["full", "skewed"], |c, sh, big| { let total = huge_n(c, big); let rs = huge_runs(c, sh, 2, total); let rs: Vec<Vec<i32>> = rs.iter().map(|r| { let mut v: Vec<i32> = r.iter().map(|&x| x as u32 as i32).collect(); v.sort_unstable(); v }).collect();
        let cfg = SimdConfig { use_avx2: c.rng.chance(3, 4), use_bmi2: c.rng.bool(), min_vector_size: *c.rng.pick(&[1usize, 8, 64]), prefetch_distance: c.rng.usize_below(4) }; c.input_str("cfg", &format!("{cfg:?}")); c.input_str("sizes", &format!("{}x{}", rs[0].len(), rs[1].len())); c.hash_more(&(rs[0].first().copied().unwrap_or(0) as i64).to_le_bytes()); c.set_nontrivial(true);
        let mut e: Vec<i32> = rs.iter().flatten().copied().collect(); e.sort_unstable(); let out = nopanic("merge_sorted_i32", || SimdComparator::with_config(cfg).merge_sorted_i32(&rs[0], &rs[1]))?; check_merge(c, "merge_sorted_i32", &e, &out) });
    huge_cases(ctx, "simd/merge_multi", &["full", "few_values", "skewed"], &["full"], |c, sh, big| { let k = 2 + c.rng.usize_below(15); let total = huge_n(c, big); let rs = huge_runs(c, sh, k, total); let rs: Vec<Vec<i32>> = rs.iter().map(|r| { let mut v: Vec<i32> = r.iter().map(|&x| x as u32 as i32).collect(); v.sort_unstable(); v }).collect();
        c.input_str("ways", &k.to_string()); c.input_str("total", &total.to_string()); c.hash_more(&(rs[0].first().copied().unwrap_or(0) as i64).to_le_bytes()); c.set_nontrivial(true); let mut e: Vec<i32> = rs.iter().flatten().copied().collect(); e.sort_unstable();
        let out = nopanic("merge_multiple_sorted", || SimdOperations::merge_multiple_sorted(rs.clone()))?; check_merge(c, "merge_multiple_sorted", &e, &out) });
    // set operations on two huge sorted sequences (one value > 65 535 times; tiny vs huge for the binary-search variants)
    for (op, name) in SETOPS.iter().enumerate() {
        let (small, big): (&[&str], &[&str]) = if op % 3 == 0 { (HSET_FAMS, &["few_values", "tiny_vs_huge"]) } else if op % 3 == 1 { (HSET_FAMS, &["overlap", "tiny_vs_huge"]) } else { (HSET_FAMS, &["all_equal", "strict"]) };
        huge_cases(ctx, &format!("setops/{name}"), small, big, |c, fam, is_big| { let (a, b) = huge_set_inputs(c, fam, is_big); setops_check(c, op, a, b) });
    }
    for (op, name) in ["inter_bitmask", "inter_general", "union", "filter_merge", "count_freq"].iter().enumerate() {
        huge_cases(ctx, &format!("setopsk/{name}"), &["few_values", "overlap", "strict", "skewed"], &["overlap"], |c, fam, is_big| { let ws = huge_kway_inputs(c, fam, is_big); kway_check(c, op, ws) });
    }
}

// ---- gap_ families: entry points no other family reaches (default constructors, shared-pool constructor, partially consumed
// merge sources, SIMD compare / min primitives, merge_all into a non-empty sink, reused SetOperations, trait default sort) ----
mod gapx {
    pub use zipora::algorithms::cache_oblivious::VanEmdeBoas;
    pub use zipora::algorithms::multiway_merge::MergeSource;
    pub use zipora::algorithms::radix_sort::{CpuFeatures as RadixCpuFeatures, DataCharacteristics as RadixData};
    pub use zipora::algorithms::tournament_tree::TournamentNode;
    pub use zipora::memory::{SecureMemoryPool, SecurePoolConfig};
}
fn gap_i32s(c: &mut Case, n: usize) -> Vec<i32> {
    let mode = c.rng.below(6); let base = c.rng.next() as i32;
    (0..n).map(|_| match mode {
        0 => c.rng.next() as i32,
        1 => c.rng.below(5) as i32 - 2,
        2 => *c.rng.pick(&[i32::MIN, i32::MAX, 0, -1, 1, i32::MIN + 1, i32::MAX - 1]),
        3 => base,
        4 => base.wrapping_add(c.rng.below(3) as i32),
        _ => if c.rng.chance(1, 4) { *c.rng.pick(&[i32::MIN, i32::MAX, 0, -1]) } else { c.rng.next() as i32 },
    }).collect()
}
fn gap_le32(v: &[i32]) -> Vec<u8> { v.iter().flat_map(|x| x.to_le_bytes()).collect() }
fn gap_simd_cfg(c: &mut Case) -> SimdConfig { SimdConfig { use_avx2: c.rng.chance(3, 4), use_bmi2: c.rng.bool(), min_vector_size: *c.rng.pick(&[0usize, 1, 4, 8, 8, 9, 16, 64]), prefetch_distance: c.rng.usize_below(5) } }
fn gap_check_min(c: &mut Case, what: &str, v: &[i32], g: Option<(usize, i32)>) -> Res {
    c.ev(1);
    match (g, v.iter().copied().min()) {
        (None, None) => Ok(()),
        (Some((i, m)), Some(e)) => {
            ensure!(m == e, "min_wrong", "{what}: minimum {m} reported, true minimum {e}; values {}", short(v));
            ensure!(i < v.len() && v[i] == m, "min_index_wrong", "{what}: index {i} does not hold the reported minimum {m}; values {}", short(v));
            // which of several equal minima is reported is not documented
            let first = v.iter().position(|&x| x == e).unwrap(); c.note(if i == first { "min_index_first" } else { "min_index_later" }, 1); Ok(()) }
        (g, e) => fail("min_wrong", format!("{what}: got {g:?}, true minimum {e:?}; values {}", short(v))),
    }
}
/// one operation on a caller-owned (reused) SetOperations object, against the counting oracle
fn gap_kway_apply(c: &mut Case, so: &mut SetOperations, op: u64, ws: &Vec<Vec<u32>>, step: usize) -> Res {
    let k = ws.len();
    let its = |ws: &Vec<Vec<u32>>| -> Vec<std::vec::IntoIter<u32>> { ws.iter().cloned().map(|w| w.into_iter()).collect() };
    let mut cnt: BTreeMap<u32, Vec<usize>> = BTreeMap::new(); for (i, w) in ws.iter().enumerate() { for &x in w { cnt.entry(x).or_insert_with(|| vec![0; k])[i] += 1; } }
    match op {
        0 => { let e: Vec<u32> = if k == 0 { vec![] } else { cnt.iter().flat_map(|(&v, cs)| std::iter::repeat(v).take(*cs.iter().min().unwrap())).collect() };
            let g = libs!("SetOperations::intersection (reused object)", so.intersection(its(ws))); check_set(c, "intersection", &format!("step {step}: k-way intersection on a reused SetOperations"), &e, &g) }
        1 => { let e: Vec<u32> = cnt.keys().copied().collect(); let g = libs!("SetOperations::union (reused object)", so.union(its(ws))); check_set(c, "union", &format!("step {step}: k-way union on a reused SetOperations"), &e, &g) }
        2 => { let m = 1 + (step as u32 % 3); let mut e: Vec<u32> = ws.iter().flatten().copied().filter(|x| x % m == 0).collect(); e.sort();
            let g = libs!("SetOperations::filter_merge (reused object)", so.filter_merge(its(ws), move |x: &u32| x % m == 0)); check_merge(c, &format!("step {step}: filter_merge on a reused SetOperations"), &e, &g) }
        _ => { let g = libs!("SetOperations::count_frequencies (reused object)", so.count_frequencies(its(ws))); let g: BTreeMap<u32, usize> = g.into_iter().collect(); let e: BTreeMap<u32, usize> = cnt.iter().map(|(&v, cs)| (v, cs.iter().sum())).collect(); c.ev(e.len().max(1) as u64);
            ensure!(g == e, "frequencies", "step {step}: count_frequencies on a reused SetOperations: got {:?} want {:?}", g, e); Ok(()) }
    }
}

fn run_gaps(ctx: &mut Ctx) {
    use gapx::*;
    // -- SimdComparator::compare_i32_slices / SimdOperations::parallel_compare_i32 == element-wise Ord::cmp
    for idx in 0..ctx.n(400, 6000) as u64 { ctx.case("simd/compare", "gap_pairs_i32", idx, |c| {
        let n = pick_n(c, &[8, 16, 64], 300); let left = gap_i32s(c, n); let mut right = gap_i32s(c, n);
        let eqp = c.rng.below(4); for i in 0..n { if c.rng.below(4) < eqp { right[i] = left[i]; } else if c.rng.chance(1, 8) { right[i] = left[i].wrapping_add(1); } }
        let cfg = gap_simd_cfg(c); c.input_str("cfg", &format!("{cfg:?}")); c.input("left", &gap_le32(&left)); c.input("right", &gap_le32(&right)); c.set_nontrivial(n >= 1);
        let e: Vec<Ordering> = left.iter().zip(right.iter()).map(|(a, b)| a.cmp(b)).collect();
        let cmp = SimdComparator::with_config(cfg.clone());
        let avail = cmp.simd_available(); c.note(if avail && n >= cfg.min_vector_size { "simd_path" } else { "scalar_path" }, 1);
        if cmp.config().min_vector_size != cfg.min_vector_size || cmp.config().use_avx2 != cfg.use_avx2 { c.note("config_getter_differs", 1); }
        let g = match nopanic("compare_i32_slices", || cmp.compare_i32_slices(&left, &right))? { Ok(g) => g, Err(e) => return Err(bad("compare_err", format!("compare_i32_slices on equal-length slices (n={n}) returned Err: {e}"))) };
        c.ev(n.max(1) as u64);
        ensure!(g.len() == n, "compare_len", "compare_i32_slices returned {} orderings for {n} pairs", g.len());
        if let Some(i) = (0..n).find(|&i| g[i] != e[i]) { return fail("compare_mismatch", format!("compare_i32_slices[{i}]: {} vs {} reported {:?}, is {:?} (n={n}, cfg {cfg:?})", left[i], right[i], g[i], e[i])); }
        let pairs: Vec<(i32, i32)> = left.iter().copied().zip(right.iter().copied()).collect();
        let g2 = nopanic("parallel_compare_i32", || SimdOperations::parallel_compare_i32(&pairs))?;
        ensure!(g2.len() == n, "compare_len", "parallel_compare_i32 returned {} orderings for {n} pairs", g2.len());
        if let Some(i) = (0..n).find(|&i| g2[i] != e[i]) { return fail("compare_mismatch", format!("parallel_compare_i32[{i}]: {} vs {} reported {:?}, is {:?} (n={n})", left[i], right[i], g2[i], e[i])); }
        // unequal lengths: the documented refusal; what an Ok would contain is not specified
        if n > 0 { match nopanic("compare_i32_slices(unequal lengths)", || cmp.compare_i32_slices(&left[..n - 1], &right))? { Err(_) => c.note("unequal_len_refused", 1), Ok(_) => c.note("unequal_len_accepted", 1) } }
        Ok(()) }); }
    // -- SimdComparator::find_min_i32 / SimdOperations::find_multiple_mins: the selection primitive of the merges
    for idx in 0..ctx.n(400, 6000) as u64 { ctx.case("simd/find_min", "gap_values_i32", idx, |c| {
        let n = pick_n(c, &[8, 16, 64], 300); let v = gap_i32s(c, n); let cfg = gap_simd_cfg(c);
        c.input_str("cfg", &format!("{cfg:?}")); c.input("values", &gap_le32(&v)); c.set_nontrivial(n >= 2);
        let cmp = SimdComparator::with_config(cfg);
        let g = nopanic("find_min_i32", || cmp.find_min_i32(&v))?; gap_check_min(c, "find_min_i32", &v, g)?;
        // the same values cut into k arrays (some empty)
        let k = c.rng.usize_below(7); let mut cuts: Vec<usize> = (0..k.saturating_sub(1)).map(|_| c.rng.usize_below(n + 1)).collect(); cuts.sort(); c.hash_more(&(k as u64).to_le_bytes());
        let mut arrs: Vec<&[i32]> = Vec::new(); if k > 0 { let mut lo = 0; for &hi in cuts.iter().chain(std::iter::once(&n)) { arrs.push(&v[lo..hi]); lo = hi; } }
        let gm = nopanic("find_multiple_mins", || SimdOperations::find_multiple_mins(&arrs))?;
        ensure!(gm.len() == arrs.len(), "min_len", "find_multiple_mins returned {} results for {} arrays", gm.len(), arrs.len());
        for (a, g) in arrs.iter().zip(gm.into_iter()) { gap_check_min(c, "find_multiple_mins", a, g)?; }
        Ok(()) }); }
    // -- VectorSource::remaining + merging sources that were partly consumed; MultiWayMerge::new()
    for idx in 0..ctx.n(300, 5000) as u64 { ctx.case("mwm/partial_sources", "gap_remaining", idx, |c| {
        let k = pick_k(c); let (rs, _) = runs_case(c, k, 40, 64);
        let mut src: Vec<VectorSource<u64>> = rs.iter().cloned().map(VectorSource::new).collect(); let mut rest: Vec<u64> = Vec::new();
        for (w, s) in src.iter_mut().enumerate() { let r = &rs[w];
            ensure!(s.remaining() == &r[..], "source_remaining", "fresh VectorSource {w}: remaining() = {} want {}", short(s.remaining()), short(r));
            let j = match c.rng.below(4) { 0 => 0, 1 => r.len(), _ => c.rng.usize_below(r.len() + 1) }; c.hash_more(&(j as u64).to_le_bytes());
            for i in 0..j { let p = s.peek().copied(); let x = nopanic("VectorSource::next", || MergeSource::next(s))?; ensure!(p == Some(r[i]) && x == Some(r[i]), "source_next", "source {w} item {i}: peek {p:?} next {x:?} want {}", r[i]); }
            c.ev(1 + j as u64);
            ensure!(s.remaining() == &r[j..], "source_remaining", "source {w} after {j} next(): remaining() = {} want {}", short(s.remaining()), short(&r[j..]));
            ensure!(MergeSource::is_empty(s) == (j == r.len()) && s.peek().copied() == r.get(j).copied(), "source_state", "source {w} after {j}/{} next(): is_empty {} peek {:?}", r.len(), MergeSource::is_empty(s), s.peek());
            if s.remaining_hint() != Some(r.len() - j) { c.note("remaining_hint_differs", 1); }
            rest.extend_from_slice(&r[j..]); }
        rest.sort();
        let mut m = match c.rng.below(3) { 0 => MultiWayMerge::new(), 1 => MultiWayMerge::default(), _ => MultiWayMerge::with_config(MultiWayMergeConfig { use_parallel: c.rng.bool(), buffer_size: *c.rng.pick(&[0usize, 1, 64]), max_merge_ways: *c.rng.pick(&[1usize, 2, 1024]), use_tournament_tree: c.rng.bool() }) };
        let out: Vec<u64> = libm!("MultiWayMerge::merge(partly consumed sources)", m.merge(src));
        if m.stats().items_processed != out.len() { c.note("stats_items_differs", 1); }
        check_merge(c, "MultiWayMerge::merge of partly consumed sources", &rest, &out) }); }
    // -- AdvancedRadixSort::new() (library defaults) and ::with_memory_pool (pool shared by two sorters), sorter reused
    for idx in 0..ctx.n(150, 2400) as u64 { ctx.case("adv/ctor", "gap_new_and_shared_pool", idx, |c| {
        let wide = c.rng.bool(); let fam = c.rng.below(NFAM as u64) as u32; let shared = idx % 3 == 2;
        let n = if shared { pick_n(c, &[16, 100, 128], 3000) } else if idx % 3 == 0 { 19_990 + c.rng.usize_below(4000) } else { pick_n(c, &[100, 10_000], 22_000) };
        let data = ints(c, fam, n, if wide { 64 } else { 32 }); let d2 = ints(c, fam, 1 + n / 3, if wide { 64 } else { 32 });
        c.input_str("wide", &wide.to_string()); c.input_str("family", fam_name(fam)); c.input("data", &le64(&data)); c.input("data2", &le64(&d2)); c.set_nontrivial(n >= 2);
        macro_rules! go { ($t:ty) => {{
            let data: Vec<$t> = data.iter().map(|&x| x as $t).collect(); let d2: Vec<$t> = d2.iter().map(|&x| x as $t).collect();
            let ch = RadixData::analyze_integers(&data); c.note(if ch.is_nearly_sorted { "analysis_nearly_sorted" } else { "analysis_unsorted" }, 1); if ch.size != n { c.note("analysis_size_differs", 1); }
            if shared {
                let (par, simd) = (c.rng.bool(), c.rng.bool()); let mut cfg = adv_cfg(c, None, true, par, simd); cfg.use_secure_memory = true; c.input_str("cfg", &format!("{cfg:?}"));
                let pool = match nopanic("SecureMemoryPool::new", || SecureMemoryPool::new(if c.rng.bool() { SecurePoolConfig::small_secure() } else { SecurePoolConfig::medium_secure() }))? { Ok(p) => p, Err(_) => { c.note("pool_refused", 1); return Ok(()); } };
                let mut s1 = nopanic("with_memory_pool", || AdvancedRadixSort::<$t>::with_memory_pool(cfg.clone(), pool.clone()))?; let mut s2 = nopanic("with_memory_pool", || AdvancedRadixSort::<$t>::with_memory_pool(cfg.clone(), pool.clone()))?;
                let _ = s1.estimate_memory(n);
                let mut a = data.clone(); lib!("AdvancedRadixSort::sort (shared pool, sorter 1)", s1.sort(&mut a)); check_perm(c, "with_memory_pool sorter 1", &data, &a)?;
                let mut b = d2.clone(); lib!("AdvancedRadixSort::sort (shared pool, sorter 2)", s2.sort(&mut b)); check_perm(c, "with_memory_pool sorter 2", &d2, &b)?;
                let mut a2 = d2.clone(); lib!("AdvancedRadixSort::sort (shared pool, sorter 1 again)", s1.sort(&mut a2)); check_perm(c, "with_memory_pool sorter 1, second sort", &d2, &a2)
            } else {
                c.note(if n >= 20_000 { "default_parallel" } else if n <= 100 { "default_insertion" } else { "default_sequential" }, 1);
                let mut s = match nopanic("AdvancedRadixSort::new", || AdvancedRadixSort::<$t>::new())? { Ok(s) => s, Err(_) => { c.note("ctor_refused", 1); return Ok(()); } };
                let _ = s.estimate_memory(n);
                let mut a = data.clone(); lib!("AdvancedRadixSort::new().sort", s.sort(&mut a)); if n > 0 { c.note(&format!("used:{:?}", s.stats().strategy_used), 1); } check_perm(c, "AdvancedRadixSort::new().sort", &data, &a)?;
                let mut b = d2.clone(); lib!("AdvancedRadixSort::new().sort (2nd)", s.sort(&mut b)); check_perm(c, "AdvancedRadixSort::new(), second sort on the same sorter", &d2, &b)
            } }} }
        if wide { go!(u64) } else { go!(u32) } }); }
    // -- RadixString::as_slice: the sorted wrappers still denote the strings that were put in
    for idx in 0..ctx.n(100, 1600) as u64 { ctx.case("adv/str_ctor", "gap_as_slice", idx, |c| {
        let fam = c.rng.below(NSFAM as u64) as u32; let n = pick_n(c, &[100], 600); let owned = strings(c, fam, n);
        c.input_str("family", sfam_name(fam)); c.input("strings", &ser_strings(&owned)); c.set_nontrivial(n >= 2);
        let mut by_key: BTreeMap<u64, &Vec<u8>> = BTreeMap::new();
        for s in &owned { let k = RadixString::new(s).extract_key(); if let Some(o) = by_key.get(&k) { if *o != s { c.tag("str_same_key8"); break; } } else { by_key.insert(k, s); } }
        let ch = RadixData::analyze_strings(&owned); c.note(if ch.is_nearly_sorted { "analysis_nearly_sorted" } else { "analysis_unsorted" }, 1);
        let data: Vec<RadixString> = owned.iter().map(|s| RadixString::new(s)).collect();
        if let Some(i) = (0..n).find(|&i| data[i].as_slice() != &owned[i][..]) { return fail("as_slice_roundtrip", format!("RadixString::new(s).as_slice() != s for s = {:?}", owned[i])); }
        let mut s = match nopanic("AdvancedRadixSort::new", || AdvancedRadixSort::<RadixString>::new())? { Ok(s) => s, Err(_) => { c.note("ctor_refused", 1); return Ok(()); } };
        let mut d = data.clone(); lib!("AdvancedRadixSort::<RadixString>::new().sort", s.sort(&mut d)); if n > 0 { c.note(&format!("used:{:?}", s.stats().strategy_used), 1); }
        let out: Vec<Vec<u8>> = d.iter().map(|r| r.as_slice().to_vec()).collect();
        check_perm(c, "AdvancedRadixSort::<RadixString>::new().sort (read back through as_slice)", &owned, &out) }); }
    // -- CacheObliviousSort::new() / Default / Algorithm::execute with the detected cache hierarchy; sorter reused
    for idx in 0..ctx.n(90, 1500) as u64 { ctx.case("cosort/ctor", "gap_new_default_execute", idx, |c| {
        let ty = idx % 3; let esz = [8usize, 16, 4][ty as usize]; let fam = c.rng.below(NFAM as u64) as u32;
        let mut n = pick_n(c, &[16, 1024, 4096, 6144, 8192], 20_000);
        let cfg = CacheObliviousConfig::default(); let h = cfg.cache_hierarchy.clone();
        // stay clear of the known unbounded funnel recursion (own target cosort/funnel_k1): configuration-only predicate
        let risky = |n: usize| { let nb = n * 8; let rf = (nb > h.l1_size && nb <= h.l3_size) || (nb > h.l3_size && n * esz > h.l2_size); rf && funnel_k1(n, funnel_width(&cfg, n), cfg.small_threshold) };
        while risky(n) { n = n * 7 / 8; }
        let keys = ints(c, fam, n, if ty == 2 { 32 } else { 64 }); let k2 = ints(c, fam, 1 + n / 2, if ty == 2 { 32 } else { 64 });
        c.input_str("type", ["u64", "(u64,u64)", "i32 via execute"][ty as usize]); c.input_str("family", fam_name(fam)); c.input("data", &le64(&keys)); c.set_nontrivial(n >= 2);
        let sel = AdaptiveAlgorithmSelector::new(&cfg); c.note(&format!("selector:{:?}", sel.select_strategy(n, &h)), 1);
        let dc = sel.analyze_data(&keys); if dc.size != n { c.note("analysis_size_differs", 1); }
        match ty {
            0 => { let mut s = CacheObliviousSort::new(); let mut d = keys.clone(); lib!("CacheObliviousSort::new().sort", s.sort(&mut d)); check_perm(c, "CacheObliviousSort::new().sort", &keys, &d)?;
                if !risky(k2.len()) { let mut d2 = k2.clone(); lib!("CacheObliviousSort::new().sort (2nd)", s.sort(&mut d2)); check_perm(c, "CacheObliviousSort::new(), second sort on the same sorter", &k2, &d2)?; } Ok(()) }
            1 => { let data: Vec<(u64, u64)> = keys.iter().enumerate().map(|(i, &k)| (k, i as u64)).collect(); let mut s = CacheObliviousSort::default(); let mut d = data.clone(); lib!("CacheObliviousSort::default().sort", s.sort(&mut d)); check_perm(c, "CacheObliviousSort::default().sort", &data, &d) }
            _ => { let data: Vec<i32> = keys.iter().map(|&x| x as u32 as i32).collect(); let out = lib!("Algorithm::execute", CacheObliviousSort::new().execute(&cfg, data.clone())); check_perm(c, "CacheObliviousSort execute", &data, &out) }
        } }); }
    // -- EnhancedLoserTree::num_ways / config, merge_all into a sink that already holds elements; TournamentNode getters (notes)
    for idx in 0..ctx.n(240, 4000) as u64 { ctx.case("losertree/ways", "gap_num_ways_merge_all", idx, |c| {
        let k = pick_k(c); let (rs, e) = runs_case(c, k, 30, 64);
        let cfg = LoserTreeConfig { initial_capacity: *c.rng.pick(&[0usize, 1, 64]), use_secure_memory: c.rng.chance(1, 4), stable_sort: c.rng.bool(), cache_optimized: c.rng.bool(), use_simd: c.rng.bool(), prefetch_distance: c.rng.usize_below(4), alignment: 64 };
        c.input_str("cfg", &format!("{cfg:?}")); let mut t = EnhancedLoserTree::<u64>::new(cfg.clone());
        ensure!(t.num_ways() == 0, "num_ways", "num_ways() = {} on a new tree", t.num_ways());
        for (i, r) in rs.iter().enumerate() { libm!("add_way", t.add_way(r.clone().into_iter())); c.ev(1); ensure!(t.num_ways() == i + 1, "num_ways", "num_ways() = {} after {} add_way calls", t.num_ways(), i + 1); }
        if t.config().stable_sort != cfg.stable_sort || t.config().initial_capacity != cfg.initial_capacity { c.note("config_getter_differs", 1); }
        let pl = c.rng.usize_below(4); let prefix: Vec<u64> = (0..pl).map(|_| c.rng.next()).collect(); c.input("sink_prefix", &le64(&prefix));
        let mut sink: std::collections::VecDeque<u64> = prefix.iter().copied().collect();
        libm!("merge_all", t.merge_all(&mut sink)); let out: Vec<u64> = sink.into_iter().collect();
        ensure!(out.len() >= pl && out[..pl] == prefix[..], "merge_all_sink_clobbered", "merge_all into a sink holding {} did not append: sink now {}", short(&prefix), short(&out));
        if t.num_ways() != k { c.note("num_ways_changed_by_merge", 1); }
        let (a, b) = (c.rng.next() as u32 as usize, c.rng.next() as u32 as usize); let nd = TournamentNode::new(a, b); c.note(if nd.loser_way() == a && nd.sequence_index() == b { "node_getters_roundtrip" } else { "node_getters_differ" }, 1);
        check_merge(c, "EnhancedLoserTree::merge_all (appended part)", &e, &out[pl..]) }); }
    // -- one SetOperations object used for a sequence of operations, reset_stats() in between
    for (strict, g) in [(true, "gap_reuse_strict_sets"), (false, "gap_reuse_with_dups")] { for idx in 0..ctx.n(200, 3000) as u64 { ctx.case("setopsk/reuse", g, idx, |c| {
        let cfg = SetOperationsConfig { use_bit_mask_optimization: c.rng.bool(), bit_mask_threshold: *c.rng.pick(&[0usize, 32, 32]), count_frequencies: c.rng.bool(), use_simd: c.rng.bool() };
        c.input_str("cfg", &format!("{cfg:?}")); let mut so = SetOperations::with_config(cfg); let steps = 2 + c.rng.usize_below(5); let mut ops = String::new();
        for step in 0..steps {
            let k = kway_k(c).min(32); let ws = kway_inputs(c, k, strict); let op = c.rng.below(4); ops.push(b"IUFC"[op as usize] as char);
            gap_kway_apply(c, &mut so, op, &ws, step)?;
            if c.rng.bool() { ops.push('r'); nopanic("reset_stats", || so.reset_stats())?; let st = so.stats(); if st.ways_processed != 0 || st.elements_examined != 0 || st.output_elements != 0 || st.used_bit_mask { c.note("stats_not_zero_after_reset", 1); } }
        }
        c.input_str("ops", &ops); c.set_nontrivial(true); Ok(()) }); } }
    // -- ExternalSort::external_sort() (trait default configuration) and the ExternalSortStats helpers (notes only)
    for idx in 0..ctx.n(60, 800) as u64 { ctx.case("extsort/trait_default", "gap_external_sort", idx, |c| {
        let fam = c.rng.below(NFAM as u64) as u32; let n = pick_n(c, &[2, 16], 2000); let data = ints(c, fam, n, 64); c.input_str("family", fam_name(fam)); c.input("data", &le64(&data)); c.set_nontrivial(n >= 2);
        let mut d = data.clone(); lib!("Vec::external_sort", d.external_sort()); check_perm(c, "Vec::external_sort", &data, &d)?;
        // a small spilling sort, then the derived statistics (their values are estimates: recorded, not judged)
        let dir = tmpdir().map_err(|e| bad("__inconclusive", format!("tempdir: {e}")))?; let el = ext_elems(c); let cfg = ext_cfg(c, dir.path(), 8, el); let m = n.min(200);
        let mut s = ReplaceSelectSort::<u64>::new(cfg); let out = lib!("ReplaceSelectSort::sort", s.sort(data[..m].to_vec())); check_perm(c, "ReplaceSelectSort::sort", &data[..m], &out)?;
        let (arl, ioe) = nopanic("ExternalSortStats helpers", || (s.stats().average_run_length(), s.stats().io_efficiency()))?;
        c.note(if arl.is_finite() && ioe.is_finite() { "stats_helpers_finite" } else { "stats_helpers_not_finite" }, 1); Ok(()) }); }
    // -- VanEmdeBoas (a layout container, not a sort: reached for the memory-safety monitors, values recorded as notes)
    for idx in 0..ctx.n(20, 200) as u64 { ctx.case("veb/get", "gap_logical_index", idx, |c| {
        let n = pick_n(c, &[64, 65], 500); let data: Vec<u64> = (0..n).map(|_| c.rng.next()).collect(); c.input("data", &le64(&data)); c.set_nontrivial(n >= 1);
        let h = CacheObliviousConfig::default().cache_hierarchy; let feats = CacheObliviousConfig::default().cpu_features;
        let v = if c.rng.bool() { VanEmdeBoas::new(data.clone(), h) } else { VanEmdeBoas::with_cpu_features(data.clone(), h, feats) };
        let mut diff = 0u64; for i in 0..n + 3 { match crate::ctx::catch(|| v.get(i).copied()) { Ok(g) => if g != data.get(i).copied() { diff += 1; }, Err(_) => { c.note("get_panicked", 1); break; } } }
        c.note(if diff == 0 { "get_matches_logical_index" } else { "get_differs_from_logical_index" }, 1);
        let f = RadixCpuFeatures::detect(); c.note(if f.has_avx512() { "avx512" } else { "no_avx512" }, 1); Ok(()) }); }
}

pub fn run(ctx: &mut Ctx) {
    run_radix(ctx);
    run_cosort(ctx);
    run_extsort(ctx);
    run_merges(ctx);
    run_setops(ctx);
    run_huge(ctx);
    run_gaps(ctx);
    run_bytes_deep(ctx);
    run_cosort_k1(ctx);
}

fn run_radix(ctx: &mut Ctx) {
    let per = ctx.n(6, 120);
    for (wide, w) in [(false, "u32"), (true, "u64")] {
        for_fams(ctx, &format!("radix/{w}_seq"), per, |c, f| radix_int(c, f, wide, RPath::Seq));
        for_fams(ctx, &format!("radix/{w}_par"), per, |c, f| radix_int(c, f, wide, RPath::Par));
    }
    let pc = ctx.n(4, 60); for_fams(ctx, "radix/u32_counting", pc, |c, f| radix_int(c, f, false, RPath::Count));
    // library defaults, length around the default parallel threshold (10 000 / 20 000)
    for idx in 0..ctx.n(12, 120) as u64 {
        ctx.case("radix/default_cfg", "thresholds", idx, |c| {
            let wide = c.rng.bool(); let n = if idx % 2 == 0 { 19_998 + c.rng.usize_below(4000) } else { pick_n(c, &[257, 10_000, 20_000], 24_000).max(if wide { 0 } else { 257 }) }; let fam = c.rng.below(NFAM as u64) as u32;
            let data = ints(c, fam, n, if wide { 64 } else { 32 }); c.input_str("wide", &wide.to_string()); c.input("data", &le64(&data)); c.set_nontrivial(n >= 2);
            c.note(if n >= 20_000 { "parallel" } else { "sequential" }, 1);
            if wide { let mut d = data.clone(); lib!("sort_u64", RadixSort::new().sort_u64(&mut d)); check_perm(c, "sort_u64", &data, &d) }
            else { let data: Vec<u32> = data.iter().map(|&x| x as u32).collect(); let mut d = data.clone(); lib!("sort_u32", RadixSort::new().sort_u32(&mut d));  check_perm(c, "sort_u32", &data, &d)?;
                let out = lib!("Algorithm::execute", RadixSort::new().execute(&RadixSortConfig::default(), data.clone())); check_perm(c, "execute", &data, &out) }
        });
    }
    for fam in 0..NSFAM { for idx in 0..ctx.n(10, 160) as u64 { ctx.case("radix/bytes", sfam_name(fam), idx, |c| {
        let n = pick_n(c, &[2, 257], 800); let data = strings(c, fam, n); c.input("strings", &ser_strings(&data)); c.set_nontrivial(n >= 2);
        let mut d = data.clone(); lib!("sort_bytes", RadixSort::new().sort_bytes(&mut d)); check_perm(c, "sort_bytes", &data, &d) }); } }
    // key-value sort: payload = original index (unique), so pairing is checked by multiset equality of the pairs
    for (wide, w) in [(false, "u32"), (true, "u64")] { for (dup, g) in [(false, "unique_keys"), (true, "dup_keys")] { for idx in 0..ctx.n(25, 300) as u64 { ctx.case(&format!("kv/{w}"), g, idx, |c| {
        let n = pick_n(c, &[2, 256], 700); let bits = if wide { 64 } else { 32 };
        let keys: Vec<u64> = if dup { let fam = *c.rng.pick(&[0u32, 2, 4, 5, gen::INT_KINDS, gen::INT_KINDS + 5]); ints(c, fam, n, bits) } else { let mut s = BTreeSet::new(); while s.len() < n { s.insert(c.rng.next() >> (64 - bits)); } let mut v: Vec<u64> = s.into_iter().collect(); c.rng.shuffle(&mut v); v };
        c.input("keys", &le64(&keys)); c.set_nontrivial(n >= 2);
        let distinct: BTreeSet<u64> = keys.iter().copied().collect(); if distinct.len() < keys.len() { c.tag("kv_duplicate_keys"); }
        if wide { let data: Vec<(u64, u32)> = keys.iter().enumerate().map(|(i, &k)| (k, i as u32)).collect(); let mut d = data.clone(); lib!("sort_by_key", KeyValueRadixSort::<u64, u32>::new().sort_by_key(&mut d)); check_perm_by(c, "sort_by_key", &data, &d, |a, b| a.0.cmp(&b.0)) }
        else { let data: Vec<(u32, u32)> = keys.iter().enumerate().map(|(i, &k)| (k as u32, i as u32)).collect(); let mut d = data.clone(); lib!("sort_by_key", KeyValueRadixSort::<u32, u32>::new().sort_by_key(&mut d)); check_perm_by(c, "sort_by_key", &data, &d, |a, b| a.0.cmp(&b.0)) }
    }); } } }
    // AdvancedRadixSort: every strategy, radix width, parallel on/off, SIMD counting on/off
    use SortingStrategy::*;
    let per = ctx.n(5, 100);
    for (wide, w) in [(false, "u32"), (true, "u64")] {
        for_fams(ctx, &format!("adv/{w}_auto"), per, |c, f| { let simd = c.rng.bool(); adv_int(c, f, wide, None, true, false, simd) });
        for_fams(ctx, &format!("adv/{w}_insertion"), per, |c, f| adv_int(c, f, wide, Some(Insertion), true, false, false));
        for_fams(ctx, &format!("adv/{w}_timsort"), per, |c, f| adv_int(c, f, wide, Some(TimSort), true, false, false));
        for_fams(ctx, &format!("adv/{w}_msd"), per, |c, f| adv_int(c, f, wide, Some(MsdRadix), true, false, false));
        for (simd, sn) in [(false, "scalar"), (true, "simd")] {
            for_fams(ctx, &format!("adv/{w}_lsd_{sn}"), per, |c, f| { let forced = c.rng.bool(); adv_int(c, f, wide, if forced { Some(LsdRadix) } else { None }, false, false, simd) });
            for_fams(ctx, &format!("adv/{w}_lsd_par_{sn}"), per, |c, f| adv_int(c, f, wide, Some(LsdRadix), true, true, simd));
        }
    }
    for idx in 0..ctx.n(4, 20) as u64 { ctx.case("adv/force_adaptive", "mixed", idx, |c| { let f = c.rng.below(NFAM as u64) as u32; let w = c.rng.bool(); c.tag("force_strategy_adaptive"); adv_int(c, f, w, Some(Adaptive), true, false, false) }); }
    for (force, adaptive, name) in [(None, true, "auto"), (Some(Insertion), true, "insertion"), (Some(TimSort), true, "timsort"), (Some(LsdRadix), true, "lsd"), (Some(MsdRadix), true, "msd")] {
        for fam in 0..NSFAM { for idx in 0..ctx.n(5, 80) as u64 { ctx.case(&format!("adv/str_{name}"), sfam_name(fam), idx, |c| adv_str(c, fam, force, adaptive)); } }
    }
}
