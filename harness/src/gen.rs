//! Input generators shared by the property drivers (DESIGN §7.1).
use crate::rng::Rng;

/// Boundary lengths used by most byte-string generators.
pub const LENS: &[usize] = &[0, 1, 2, 3, 4, 7, 8, 9, 15, 16, 17, 31, 32, 33, 63, 64, 65, 99, 100, 101, 127, 128, 129,
    255, 256, 257, 511, 512, 513, 1023, 1024, 1025, 4095, 4096, 4097];
pub const LENS_BIG: &[usize] = &[8191, 8192, 8193, 16384, 65535, 65536, 65537];

pub fn pick_len(r: &mut Rng, max: usize) -> usize {
    loop {
        let l = match r.below(4) {
            0 => *r.pick(LENS),
            1 => { let b = *r.pick(LENS); let d = r.below(9) as i64 - 4; (b as i64 + d).max(0) as usize }
            2 => r.usize_below(max.min(300) + 1),
            _ => r.usize_below(max + 1),
        };
        if l <= max { return l; }
    }
}

pub const BYTE_KINDS: u32 = 14;
pub fn byte_kind_name(kind: u32) -> &'static str {
    ["uniform", "constant", "zeros", "alpha2", "alpha3", "alpha16", "geometric", "fibonacci", "periodic", "runs", "text",
     "highbytes", "alpha255", "sparse_outlier"][(kind % BYTE_KINDS) as usize]
}
/// One byte string of exactly `len` bytes of the given family.
pub fn bytes_kind(r: &mut Rng, kind: u32, len: usize) -> Vec<u8> {
    match kind % BYTE_KINDS {
        0 => r.bytes(len),
        1 => { let b = r.next() as u8; vec![b; len] }
        2 => vec![0u8; len],
        3 => { let a = r.next() as u8; let b = r.next() as u8; (0..len).map(|_| if r.bool() { a } else { b }).collect() }
        4 => { let s = r.bytes(3); (0..len).map(|_| s[r.usize_below(3)]).collect() }
        5 => { let s = r.bytes(16); (0..len).map(|_| s[r.usize_below(16)]).collect() }
        6 => { // geometric: symbol i with probability ~2^-(i+1): deep Huffman trees
            let base = r.next() as u8; let ratio = 1 + r.below(3); // 1/2, 1/3, 1/4
            (0..len).map(|_| { let mut i = 0u8; while i < 40 && r.below(ratio + 1) != 0 { i += 1; } base.wrapping_add(i) }).collect() }
        7 => { // fibonacci frequency profile (exact), shuffled: forces maximal Huffman depth for the length
            let mut out = Vec::with_capacity(len); let (mut a, mut b) = (1usize, 1usize); let mut sym = r.next() as u8;
            while out.len() < len { for _ in 0..a { if out.len() < len { out.push(sym); } } sym = sym.wrapping_add(1); let c = a + b; a = b; b = c; }
            r.shuffle(&mut out); out }
        8 => { let p = 1 + r.usize_below(9); let pat = r.bytes(p); (0..len).map(|i| pat[i % p]).collect() }
        9 => { let mut out = Vec::with_capacity(len); while out.len() < len { let b = r.next() as u8; let m = if r.chance(1, 4) { 300 } else { 12 }; let n = 1 + r.usize_below(m); for _ in 0..n { if out.len() < len { out.push(b); } } } out }
        10 => { const W: &[&str] = &["the ", "quick ", "brown ", "fox ", "jumps ", "over ", "lazy ", "dog ", "compression ", "zipora ", "\n", "data ", "0123 ", "aaaa", "abcabc"];
            let mut out = Vec::with_capacity(len + 16); while out.len() < len { out.extend_from_slice(r.pick(W).as_bytes()); } out.truncate(len); out }
        11 => (0..len).map(|_| 0x80 | (r.next() as u8)).collect(),
        12 => (0..len).map(|_| (r.below(255)) as u8).collect(),
        _ => { let b = r.next() as u8; (0..len).map(|_| if r.chance(1, 97) { r.next() as u8 } else { b }).collect() }
    }
}
pub fn bytes_any(r: &mut Rng, max: usize) -> (u32, Vec<u8>) {
    let kind = r.below(BYTE_KINDS as u64) as u32; let len = pick_len(r, max); (kind, bytes_kind(r, kind, len))
}
/// Data that shares long substrings with `base` at different offsets (training != payload).
pub fn related_bytes(r: &mut Rng, base: &[u8], len: usize) -> Vec<u8> {
    let mut out = Vec::with_capacity(len + 64);
    while out.len() < len {
        if !base.is_empty() && r.chance(2, 3) { let a = r.usize_below(base.len()); let n = 1 + r.usize_below((base.len() - a).min(64)); out.extend_from_slice(&base[a..a + n]); }
        else { let n = 1 + r.usize_below(8); out.extend(r.bytes(n)); }
    }
    out.truncate(len); out
}

pub const BIT_KINDS: u32 = 9;
pub fn bit_kind_name(kind: u32) -> &'static str { ["zeros", "ones", "half", "sparse1pc", "dense99pc", "runs", "mod3", "verysparse", "blocky"][(kind % BIT_KINDS) as usize] }
pub fn bits_kind(r: &mut Rng, kind: u32, len: usize) -> Vec<bool> {
    match kind % BIT_KINDS {
        0 => vec![false; len], 1 => vec![true; len],
        2 => (0..len).map(|_| r.bool()).collect(),
        3 => (0..len).map(|_| r.chance(1, 100)).collect(),
        4 => (0..len).map(|_| !r.chance(1, 100)).collect(),
        5 => { let mut v = Vec::with_capacity(len); let mut b = r.bool(); while v.len() < len { let n = 1 + r.usize_below(700); for _ in 0..n { if v.len() < len { v.push(b); } } b = !b; } v }
        6 => (0..len).map(|i| i % 3 == 0).collect(),
        7 => { let mut v = vec![false; len]; if len > 0 { for _ in 0..(1 + len / 5000) { let i = r.usize_below(len); v[i] = true; } } v }
        _ => { // whole 64/256-bit blocks all-zero or all-one
            let bs = *r.pick(&[64usize, 256, 512]); let mut v = Vec::with_capacity(len); while v.len() < len { let b = r.bool(); for _ in 0..bs { if v.len() < len { v.push(b); } } } v }
    }
}
pub const BIT_LENS: &[usize] = &[0, 1, 2, 63, 64, 65, 127, 128, 129, 255, 256, 257, 511, 512, 513, 1000, 2047, 2048, 2049, 4095, 4096, 4097];
pub const BIT_LENS_BIG: &[usize] = &[10000, 65535, 65536, 65537, 100000, 131073];

/// Keys for tries / maps: tiny alphabets, shared prefixes, 0x00/0xFF, long keys.
pub fn key(r: &mut Rng, mode: u32) -> Vec<u8> {
    match mode % 6 {
        0 => { let l = r.usize_below(5); (0..l).map(|_| b'a' + r.below(3) as u8).collect() }
        1 => { let l = r.usize_below(4); (0..l).map(|_| [0u8, 0xff, 1, 0x80][r.usize_below(4)]).collect() }
        2 => { let l = r.usize_below(80); (0..l).map(|_| b'a' + r.below(2) as u8).collect() }
        3 => { let l = r.usize_below(8); r.bytes(l) }
        4 => { let l = 1 + r.usize_below(6); (0..l).map(|_| b'a' + r.below(26) as u8).collect() }
        _ => { let l = 200 + r.usize_below(200); let c = b'x' + r.below(2) as u8; let mut k = vec![c; l]; if r.bool() { k.push(r.next() as u8); } k }
    }
}

pub const INT_KINDS: u32 = 9;
pub fn int_kind_name(kind: u32) -> &'static str { ["constant", "sorted", "small", "full", "outliers", "extremes", "exact_width", "delta_small", "alternating"][(kind % INT_KINDS) as usize] }
/// u64 sequences; callers cast/mask to the element type (mask = type max).
pub fn ints_kind(r: &mut Rng, kind: u32, len: usize, mask: u64) -> Vec<u64> {
    let v: Vec<u64> = match kind % INT_KINDS {
        0 => { let c = r.next() & mask; vec![c; len] }
        1 => { let mut v: Vec<u64> = (0..len).map(|_| r.next() & mask).collect(); v.sort(); v }
        2 => { let m = 1 + r.below(300); let base = if r.bool() { 0 } else { r.next() & (mask >> 1) }; (0..len).map(|_| (base + r.below(m)) & mask).collect() }
        3 => (0..len).map(|_| r.next() & mask).collect(),
        4 => (0..len).map(|_| if r.chance(1, 50) { r.next() & mask } else { r.below(16) }).collect(),
        5 => (0..len).map(|_| *r.pick(&[0u64, 1 & mask, mask, mask.saturating_sub(1), mask >> 1, ((mask >> 1) + 1) & mask])).collect(),
        6 => { let w = 1 + r.below(64); let m = if w == 64 { u64::MAX } else { (1u64 << w) - 1 }; (0..len).map(|i| if i == 0 { m & mask } else { r.next() & m & mask }).collect() }
        7 => { let mut cur = r.next() & (mask >> 2); (0..len).map(|_| { cur = cur.wrapping_add(r.below(5)) & mask; cur }).collect() }
        _ => (0..len).map(|i| if i % 2 == 0 { 0 } else { mask }).collect(),
    };
    v
}

pub fn hex(b: &[u8]) -> String { let mut s = String::with_capacity(b.len() * 2); for x in b { s.push_str(&format!("{:02x}", x)); } s }
pub fn abbrev(b: &[u8]) -> String { if b.len() <= 48 { format!("len={} hex={}", b.len(), hex(b)) } else { format!("len={} hex={}..{}", b.len(), hex(&b[..32]), hex(&b[b.len() - 8..])) } }
