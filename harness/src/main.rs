//! zv — runtime monitors for the zipora properties C01..C20 (see /verif/DESIGN.md).
#[macro_use]
pub mod ctx;
pub mod rng;
pub mod gen;
pub mod mon;
pub mod sched;
pub mod props;

use ctx::{Ctx, Tier};

/// Tracking global allocator: records the largest single allocation request since the last reset
/// (used by C15: "never tries to allocate memory proportional to an unvalidated length field").
struct TrackingAlloc;
unsafe impl std::alloc::GlobalAlloc for TrackingAlloc {
    unsafe fn alloc(&self, l: std::alloc::Layout) -> *mut u8 { ctx::note_alloc(l.size()); unsafe { std::alloc::System.alloc(l) } }
    unsafe fn dealloc(&self, p: *mut u8, l: std::alloc::Layout) { unsafe { std::alloc::System.dealloc(p, l) } }
    unsafe fn alloc_zeroed(&self, l: std::alloc::Layout) -> *mut u8 { ctx::note_alloc(l.size()); unsafe { std::alloc::System.alloc_zeroed(l) } }
    unsafe fn realloc(&self, p: *mut u8, l: std::alloc::Layout, n: usize) -> *mut u8 { ctx::note_alloc(n); unsafe { std::alloc::System.realloc(p, l, n) } }
}
#[global_allocator]
static GLOBAL: TrackingAlloc = TrackingAlloc;

fn arg(args: &[String], name: &str) -> Option<String> { args.iter().position(|a| a == name).and_then(|i| args.get(i + 1).cloned()) }
fn flag(args: &[String], name: &str) -> bool { args.iter().any(|a| a == name) }

fn main() {
    let args: Vec<String> = std::env::args().collect();
    let cmd = args.get(1).map(|s| s.as_str()).unwrap_or("help");
    match cmd {
        "list" => { for p in props::ALL { println!("{p}"); } }
        "run" => {
            let prop = arg(&args, "--prop").expect("--prop");
            let tier = match arg(&args, "--tier").as_deref() { Some("thorough") => Tier::Thorough, _ => Tier::Quick };
            let seed: u64 = arg(&args, "--seed").and_then(|s| s.parse().ok()).unwrap_or(1);
            let (shard, nshards) = arg(&args, "--shard").and_then(|s| { let (a, b) = s.split_once('/')?; Some((a.parse().ok()?, b.parse().ok()?)) }).unwrap_or((0usize, 1usize));
            let out_path = arg(&args, "--out");
            let out = out_path.as_ref().map(|p| std::fs::OpenOptions::new().create(true).append(true).open(p).expect("open --out"));
            let mut c = Ctx::new(&prop, tier, seed, shard, nshards, out);
            c.pinned = flag(&args, "--pinned");
            c.only = arg(&args, "--only");
            c.targets = arg(&args, "--targets").map(|s| s.split(',').map(|x| x.to_string()).collect());
            c.gens = arg(&args, "--gens").map(|s| s.split(',').map(|x| x.to_string()).collect());
            c.from_seq = arg(&args, "--from-seq").and_then(|s| s.parse().ok()).unwrap_or(0);
            c.verbose = flag(&args, "--verbose");
            c.variant = arg(&args, "--variant").unwrap_or_else(|| "fast".into());
            if let Some(b) = arg(&args, "--budget-s").and_then(|s| s.parse::<u64>().ok()) { c.budget = std::time::Duration::from_secs(b); }
            if let Some(s) = arg(&args, "--scale").and_then(|s| s.parse::<f64>().ok()) { c.scale = s; }
            if let Some(mb) = arg(&args, "--rlimit-as-mb").and_then(|s| s.parse::<u64>().ok()) {
                let lim = libc::rlimit { rlim_cur: mb << 20, rlim_max: mb << 20 };
                unsafe { libc::setrlimit(libc::RLIMIT_AS, &lim); }
            }
            ctx::install_panic_hook();
            ctx::set_verbose_panics(c.verbose);
            if cfg!(miri) { c.set_case_wall_limit_ms(150_000); }
            ctx::start_watchdog(out_path.clone());
            if !props::run(&prop, &mut c) { eprintln!("unknown property {prop}"); std::process::exit(2); }
            c.finish();
            // library code may have spawned threads / runtimes; do not wait for them
            std::process::exit(0);
        }
        _ => { eprintln!("usage: zv list | zv run --prop CXX [--tier quick|thorough] [--seed N] [--shard i/n] [--out FILE] [--pinned] [--targets a,b*] [--only KEY] [--from-seq N] [--verbose] [--budget-s N] [--scale F] [--variant NAME]"); std::process::exit(2); }
    }
}
