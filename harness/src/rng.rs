//! Seeded PRNG (splitmix64 seeding + xoshiro256**). All randomness in the harness derives from here.
#[derive(Clone, Debug)]
pub struct Rng { s: [u64; 4] }

pub fn splitmix64(x: &mut u64) -> u64 {
    *x = x.wrapping_add(0x9E3779B97F4A7C15);
    let mut z = *x;
    z = (z ^ (z >> 30)).wrapping_mul(0xBF58476D1CE4E5B9);
    z = (z ^ (z >> 27)).wrapping_mul(0x94D049BB133111EB);
    z ^ (z >> 31)
}

pub fn fnv1a(init: u64, bytes: &[u8]) -> u64 {
    let mut h = init ^ 0xcbf29ce484222325;
    for &b in bytes { h ^= b as u64; h = h.wrapping_mul(0x100000001b3); }
    h
}

pub fn derive_seed(parts: &[&[u8]], base: u64) -> u64 {
    let mut h = base;
    for p in parts { h = fnv1a(h, p); h = h.rotate_left(17) ^ 0xA5A5_5A5A_DEAD_BEEF; }
    let mut x = h; splitmix64(&mut x)
}

impl Rng {
    pub fn new(seed: u64) -> Rng {
        let mut x = seed;
        let s = [splitmix64(&mut x), splitmix64(&mut x), splitmix64(&mut x), splitmix64(&mut x)];
        Rng { s }
    }
    pub fn next(&mut self) -> u64 {
        let r = self.s[1].wrapping_mul(5).rotate_left(7).wrapping_mul(9);
        let t = self.s[1] << 17;
        self.s[2] ^= self.s[0]; self.s[3] ^= self.s[1]; self.s[1] ^= self.s[2]; self.s[0] ^= self.s[3];
        self.s[2] ^= t; self.s[3] = self.s[3].rotate_left(45);
        r
    }
    /// uniform in 0..n (n>0)
    pub fn below(&mut self, n: u64) -> u64 { if n == 0 { 0 } else { self.next() % n } }
    pub fn usize_below(&mut self, n: usize) -> usize { self.below(n as u64) as usize }
    /// inclusive range
    pub fn range(&mut self, lo: u64, hi: u64) -> u64 { if hi <= lo { lo } else { lo + self.below(hi - lo + 1) } }
    pub fn urange(&mut self, lo: usize, hi: usize) -> usize { self.range(lo as u64, hi as u64) as usize }
    pub fn chance(&mut self, num: u64, den: u64) -> bool { self.below(den) < num }
    pub fn bool(&mut self) -> bool { self.next() & 1 == 1 }
    pub fn f64(&mut self) -> f64 { (self.next() >> 11) as f64 / (1u64 << 53) as f64 }
    pub fn pick<'a, T>(&mut self, xs: &'a [T]) -> &'a T { &xs[self.usize_below(xs.len())] }
    pub fn bytes(&mut self, n: usize) -> Vec<u8> { (0..n).map(|_| self.next() as u8).collect() }
    pub fn shuffle<T>(&mut self, xs: &mut [T]) { for i in (1..xs.len()).rev() { let j = self.usize_below(i + 1); xs.swap(i, j); } }
    pub fn fork(&mut self) -> Rng { Rng::new(self.next()) }
}
