//! Schedule-point runtime on top of zipora's `verif_hooks::sched_point` (DESIGN §7.4).
//!
//! controlled mode: participating threads run strictly one at a time; at every schedule point (library hook
//! sites + explicit client points) the running thread hands control to the scheduler, which picks the next
//! runnable thread (random walk / PCT priorities / stall scripts). The (thread, site) sequence is the replayable
//! schedule; its hash identifies the interleaving. Hooks are never inside a lock, so a parked thread holds nothing.
//!
//! free-running mode: the callback only injects seeded spins / yields and counts visits (no synchronisation,
//! so race detectors see the program's own happens-before only).
use crate::rng::{fnv1a, Rng};
use std::cell::Cell;
use std::collections::BTreeMap;
use std::sync::atomic::{AtomicBool, AtomicU64, Ordering};
use std::sync::{Arc, Condvar, Mutex, OnceLock};
use std::time::Duration;

pub const SITE_CLIENT: u32 = 1; // explicit point between client operations
pub const SITE_START: u32 = 2;
pub const SITE_END: u32 = 3;

#[derive(Clone, Debug)]
pub enum Strategy {
    /// at each point switch to another runnable thread with probability pct/100
    Random { switch_pct: u32 },
    /// PCT: random priorities, `depth-1` priority change points among the first `horizon` steps
    Pct { depth: u32, horizon: u32 },
    /// run thread order round-robin switching at every point
    RoundRobin,
}

/// "park thread `thread` at its `nth` (1-based) visit of `site` until thread `until_thread` has finished
/// or has visited `until_site` `until_count` times" — encodes the classic windows directly.
#[derive(Clone, Debug)]
pub struct Stall { pub thread: usize, pub site: u32, pub nth: u32, pub until_thread: usize, pub until_site: u32, pub until_count: u32 }

#[derive(Clone, Copy, PartialEq, Debug)]
enum TS { NotStarted, Runnable, Stalled(usize), Finished }

struct Inner {
    active: bool,
    current: usize,
    ts: Vec<TS>,
    trace_hash: u64,
    trace: Vec<(u8, u32)>,
    steps: u64,
    rng: Rng,
    strategy: Strategy,
    prio: Vec<i64>,
    change_points: Vec<u64>,
    stalls: Vec<Stall>,
    visits: Vec<BTreeMap<u32, u32>>, // per thread
    site_visits: BTreeMap<u32, u64>,
    aborted: bool,
    invariant: Option<Arc<dyn Fn() -> Option<String> + Send + Sync>>,
    violation: Option<String>,
    max_steps: u64,
}

struct Sched { m: Mutex<Inner>, cv: Condvar }
static SCHED: OnceLock<Sched> = OnceLock::new();
thread_local! { static TID: Cell<usize> = const { Cell::new(usize::MAX) }; }

fn sched() -> &'static Sched {
    SCHED.get_or_init(|| Sched { m: Mutex::new(Inner { active: false, current: usize::MAX, ts: vec![], trace_hash: 0, trace: vec![], steps: 0, rng: Rng::new(0),
        strategy: Strategy::RoundRobin, prio: vec![], change_points: vec![], stalls: vec![], visits: vec![], site_visits: BTreeMap::new(), aborted: false, invariant: None, violation: None, max_steps: 100_000 }), cv: Condvar::new() })
}

#[derive(Debug, Clone, Default)]
pub struct ExecResult {
    pub trace_hash: u64,
    pub steps: u64,
    pub site_visits: BTreeMap<u32, u64>,
    pub aborted: bool,
    pub violation: Option<String>,
    pub trace: Vec<(u8, u32)>,
    pub panics: Vec<String>,
}

fn pick_next(g: &mut Inner, me: usize) -> usize {
    // release stalls whose condition is met
    for i in 0..g.ts.len() {
        if let TS::Stalled(si) = g.ts[i] {
            let s = &g.stalls[si];
            let done = g.ts[s.until_thread] == TS::Finished || g.visits[s.until_thread].get(&s.until_site).copied().unwrap_or(0) >= s.until_count;
            if done { g.ts[i] = TS::Runnable; }
        }
    }
    let runnable: Vec<usize> = (0..g.ts.len()).filter(|&i| g.ts[i] == TS::Runnable).collect();
    if runnable.is_empty() {
        // only stalled threads left: release them (avoid deadlock)
        for i in 0..g.ts.len() { if let TS::Stalled(_) = g.ts[i] { g.ts[i] = TS::Runnable; } }
        let r: Vec<usize> = (0..g.ts.len()).filter(|&i| g.ts[i] == TS::Runnable).collect();
        return if r.is_empty() { usize::MAX } else { r[g.rng.usize_below(r.len())] };
    }
    let me_runnable = me < g.ts.len() && g.ts[me] == TS::Runnable;
    match g.strategy.clone() {
        Strategy::Random { switch_pct } => {
            if me_runnable && (runnable.len() == 1 || g.rng.below(100) >= switch_pct as u64) { me }
            else { let others: Vec<usize> = runnable.iter().copied().filter(|&i| i != me).collect(); if others.is_empty() { me } else { others[g.rng.usize_below(others.len())] } }
        }
        Strategy::Pct { .. } => {
            if g.change_points.contains(&g.steps) && me_runnable { let lo = g.prio.iter().copied().min().unwrap_or(0) - 1; g.prio[me] = lo; }
            *runnable.iter().max_by_key(|&&i| g.prio[i]).unwrap()
        }
        Strategy::RoundRobin => { let n = g.ts.len(); let mut k = (me.wrapping_add(1)) % n; for _ in 0..n { if g.ts[k] == TS::Runnable { return k; } k = (k + 1) % n; } runnable[0] }
    }
}

fn wait_turn(s: &Sched, mut g: std::sync::MutexGuard<'_, Inner>, me: usize) {
    while g.current != me && !g.aborted {
        let (ng, to) = s.cv.wait_timeout(g, Duration::from_secs(if cfg!(miri) { 120 } else { 20 })).unwrap();
        g = ng;
        if to.timed_out() && g.current != me { g.aborted = true; s.cv.notify_all(); }
    }
}

/// Schedule point (called from the library hook and from client code).
pub fn point(site: u32) {
    let me = TID.with(|t| t.get());
    if me == usize::MAX { return; }
    let s = sched();
    let mut g = s.m.lock().unwrap();
    if !g.active || g.aborted { return; }
    g.steps += 1;
    if g.steps > g.max_steps { g.aborted = true; s.cv.notify_all(); return; }
    g.trace_hash = fnv1a(g.trace_hash.rotate_left(7), &[(me as u8), (site & 0xff) as u8, (site >> 8) as u8]);
    if g.trace.len() < 4096 { g.trace.push((me as u8, site)); }
    *g.site_visits.entry(site).or_insert(0) += 1;
    *g.visits[me].entry(site).or_insert(0) += 1;
    // stall rules for this thread/site
    let nth = g.visits[me][&site];
    if let Some(si) = g.stalls.iter().position(|st| st.thread == me && st.site == site && st.nth == nth) { g.ts[me] = TS::Stalled(si); }
    if g.violation.is_none() { if let Some(inv) = g.invariant.clone() { if let Some(v) = inv() { g.violation = Some(format!("{v} (at step {} thread {me} site {site})", g.steps)); } } }
    let next = pick_next(&mut g, me);
    if next == usize::MAX || next == me { if let TS::Stalled(_) = g.ts[me] { g.ts[me] = TS::Runnable; } return; }
    g.current = next;
    s.cv.notify_all();
    wait_turn(s, g, me);
}

fn hook(site: u32) { point(site); }

fn thread_enter(me: usize) {
    TID.with(|t| t.set(me));
    let s = sched();
    let mut g = s.m.lock().unwrap();
    g.ts[me] = TS::Runnable;
    s.cv.notify_all();
    wait_turn(s, g, me);
}
fn thread_exit(me: usize) {
    let s = sched();
    let mut g = s.m.lock().unwrap();
    g.ts[me] = TS::Finished;
    *g.visits[me].entry(SITE_END).or_insert(0) += 1;
    if !g.aborted {
        let next = pick_next(&mut g, me);
        g.current = next;
    }
    s.cv.notify_all();
    drop(g);
    TID.with(|t| t.set(usize::MAX));
}

static EXEC_LOCK: Mutex<()> = Mutex::new(());

/// Run `bodies` (one per thread) under the controlled scheduler. `invariant` is evaluated at every schedule point
/// while all participants are parked (it may read shared monitor state and the structure under test).
pub fn run_controlled(seed: u64, strategy: Strategy, stalls: Vec<Stall>, bodies: Vec<Box<dyn FnOnce() + Send>>,
                      invariant: Option<Arc<dyn Fn() -> Option<String> + Send + Sync>>) -> ExecResult {
    let _x = EXEC_LOCK.lock().unwrap_or_else(|e| e.into_inner());
    let n = bodies.len();
    let s = sched();
    {
        let mut g = s.m.lock().unwrap();
        let mut rng = Rng::new(seed);
        let (prio, cps) = match &strategy { Strategy::Pct { depth, horizon } => { let mut p: Vec<i64> = (0..n as i64).map(|i| i + *depth as i64).collect(); rng.shuffle(&mut p); let c = (1..*depth).map(|_| 1 + rng.below(*horizon as u64)).collect(); (p, c) } _ => (vec![0; n], vec![]) };
        *g = Inner { active: true, current: usize::MAX, ts: vec![TS::NotStarted; n], trace_hash: 0, trace: vec![], steps: 0, rng, strategy, prio, change_points: cps, stalls,
                     visits: vec![BTreeMap::new(); n], site_visits: BTreeMap::new(), aborted: false, invariant, violation: None, max_steps: 200_000 };
    }
    zipora::verif_hooks::set_sched_hook(Some(hook));
    let panics = Arc::new(Mutex::new(Vec::new()));
    let mut handles = Vec::new();
    for (i, b) in bodies.into_iter().enumerate() {
        let panics = panics.clone();
        handles.push(std::thread::spawn(move || {
            thread_enter(i);
            let r = std::panic::catch_unwind(std::panic::AssertUnwindSafe(b));
            if r.is_err() { let p = crate::ctx::take_panic(); panics.lock().unwrap().push(match p { Some((l, m)) => format!("{l}: {m}"), None => "panic".into() }); }
            thread_exit(i);
        }));
    }
    // wait until all have registered, then start the first
    {
        let mut g = s.m.lock().unwrap();
        while g.ts.iter().any(|t| *t == TS::NotStarted) && !g.aborted {
            let (ng, to) = s.cv.wait_timeout(g, Duration::from_secs(if cfg!(miri) { 120 } else { 20 })).unwrap(); g = ng;
            if to.timed_out() { g.aborted = true; }
        }
        let first = pick_next(&mut g, usize::MAX);
        g.current = first;
        s.cv.notify_all();
    }
    for h in handles { let _ = h.join(); }
    zipora::verif_hooks::set_sched_hook(None);
    let mut g = s.m.lock().unwrap();
    g.active = false;
    let panics = panics.lock().unwrap().clone();
    ExecResult { trace_hash: g.trace_hash, steps: g.steps, site_visits: g.site_visits.clone(), aborted: g.aborted, violation: g.violation.clone(), trace: g.trace.clone(), panics }
}

// ---- free-running mode ---------------------------------------------------------------------
static FREE_SEED: AtomicU64 = AtomicU64::new(0);
static FREE_PCT: AtomicU64 = AtomicU64::new(0);
static FREE_ON: AtomicBool = AtomicBool::new(false);
pub static FREE_VISITS: [AtomicU64; 1024] = [const { AtomicU64::new(0) }; 1024];
thread_local! { static FREE_RNG: Cell<u64> = const { Cell::new(0) }; }

fn free_hook(site: u32) {
    FREE_VISITS[(site as usize) % 1024].fetch_add(1, Ordering::Relaxed);
    if !FREE_ON.load(Ordering::Relaxed) { return; }
    let mut x = FREE_RNG.with(|r| r.get());
    if x == 0 { x = FREE_SEED.load(Ordering::Relaxed) ^ (std::thread::current().id().as_u64_hack()); }
    x ^= x << 13; x ^= x >> 7; x ^= x << 17;
    FREE_RNG.with(|r| r.set(x));
    if (x % 100) < FREE_PCT.load(Ordering::Relaxed) {
        match (x >> 8) % 4 { 0 => std::thread::yield_now(), 1 => { for _ in 0..((x >> 16) % 200) { std::hint::spin_loop(); } } 2 => { for _ in 0..((x >> 16) % 3000) { std::hint::spin_loop(); } } _ => std::thread::yield_now() }
    }
}
trait TidHack { fn as_u64_hack(&self) -> u64; }
impl TidHack for std::thread::ThreadId { fn as_u64_hack(&self) -> u64 { let s = format!("{:?}", self); fnv1a(0, s.as_bytes()) | 1 } }

/// Install the free-running perturbation hook (pct = probability in percent of perturbing at a site).
pub fn free_running_on(seed: u64, pct: u64) {
    FREE_SEED.store(seed | 1, Ordering::SeqCst); FREE_PCT.store(pct, Ordering::SeqCst); FREE_ON.store(true, Ordering::SeqCst);
    zipora::verif_hooks::set_sched_hook(Some(free_hook));
}
pub fn free_running_off() { FREE_ON.store(false, Ordering::SeqCst); zipora::verif_hooks::set_sched_hook(None); }
pub fn free_visits_snapshot() -> BTreeMap<u32, u64> { let mut m = BTreeMap::new(); for (i, a) in FREE_VISITS.iter().enumerate() { let v = a.load(Ordering::Relaxed); if v > 0 { m.insert(i as u32, v); } } m }
pub fn free_visits_reset() { for a in FREE_VISITS.iter() { a.store(0, Ordering::Relaxed); } }
