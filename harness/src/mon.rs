//! Shared monitors: drop-tracking element type, shadow interval map of live allocations.
use std::cell::RefCell;
use std::collections::{BTreeMap, HashSet};

thread_local! {
    static LIVE: RefCell<HashSet<u64>> = RefCell::new(HashSet::new());
    static NEXT: RefCell<u64> = RefCell::new(0);
    static ERRS: RefCell<Vec<String>> = RefCell::new(Vec::new());
    static DROPS: RefCell<u64> = RefCell::new(0);
}

/// Element type that owns heap memory and whose drops are counted exactly (per thread).
/// `id` identifies the logical value (clones get a fresh `uid` but keep `id`).
#[derive(Debug)]
pub struct Tracked { pub id: u64, uid: u64, heap: Box<u64> }
impl Tracked {
    pub fn new(id: u64) -> Tracked {
        let uid = NEXT.with(|n| { let mut n = n.borrow_mut(); *n += 1; *n });
        LIVE.with(|l| l.borrow_mut().insert(uid));
        Tracked { id, uid, heap: Box::new(id ^ 0x5a5a_5a5a) }
    }
    /// false if the value's heap part was corrupted / read after drop
    pub fn intact(&self) -> bool { *self.heap == self.id ^ 0x5a5a_5a5a && LIVE.with(|l| l.borrow().contains(&self.uid)) }
}
impl Clone for Tracked { fn clone(&self) -> Tracked { Tracked::new(self.id) } }
impl PartialEq for Tracked { fn eq(&self, o: &Tracked) -> bool { self.id == o.id } }
impl Eq for Tracked {}
impl PartialOrd for Tracked { fn partial_cmp(&self, o: &Tracked) -> Option<std::cmp::Ordering> { Some(self.id.cmp(&o.id)) } }
impl Ord for Tracked { fn cmp(&self, o: &Tracked) -> std::cmp::Ordering { self.id.cmp(&o.id) } }
impl std::hash::Hash for Tracked { fn hash<H: std::hash::Hasher>(&self, h: &mut H) { self.id.hash(h) } }
impl Default for Tracked { fn default() -> Tracked { Tracked::new(0) } }
impl Drop for Tracked {
    fn drop(&mut self) {
        DROPS.with(|d| *d.borrow_mut() += 1);
        let ok = LIVE.with(|l| l.borrow_mut().remove(&self.uid));
        if !ok { ERRS.with(|e| e.borrow_mut().push(format!("double drop of element id={} uid={}", self.id, self.uid))); }
    }
}
/// Reset the per-thread tracking state (call at the start of a case).
pub fn tracked_reset() { LIVE.with(|l| l.borrow_mut().clear()); ERRS.with(|e| e.borrow_mut().clear()); DROPS.with(|d| *d.borrow_mut() = 0); }
pub fn tracked_live() -> usize { LIVE.with(|l| l.borrow().len()) }
pub fn tracked_drops() -> u64 { DROPS.with(|d| *d.borrow()) }
pub fn tracked_errors() -> Vec<String> { ERRS.with(|e| e.borrow().clone()) }

/// Shadow map of live allocations: [addr, addr+size) ranges with a fill pattern.
#[derive(Default)]
pub struct Shadow { pub live: BTreeMap<usize, (usize, u8)>, pub checks: u64 }
impl Shadow {
    pub fn new() -> Shadow { Shadow::default() }
    /// Some(description) if [addr, addr+size) overlaps a live range
    pub fn overlap(&self, addr: usize, size: usize) -> Option<String> {
        if let Some((&a, &(s, _))) = self.live.range(..=addr).next_back() { if a + s > addr { return Some(format!("new [{addr:#x},+{size}) overlaps live [{a:#x},+{s})")); } }
        if let Some((&a, &(s, _))) = self.live.range(addr..).next() { if addr + size > a && size > 0 { return Some(format!("new [{addr:#x},+{size}) overlaps live [{a:#x},+{s})")); } }
        None
    }
    /// Register + fill the block with `pat`.
    /// # Safety: [addr, addr+size) must be writable memory handed out by the allocator under test.
    pub unsafe fn insert_fill(&mut self, addr: usize, size: usize, pat: u8) { unsafe { std::ptr::write_bytes(addr as *mut u8, pat, size); } self.live.insert(addr, (size, pat)); }
    /// # Safety: block must still be live
    pub unsafe fn verify(&mut self, addr: usize) -> bool { self.checks += 1; match self.live.get(&addr) { Some(&(s, p)) => unsafe { std::slice::from_raw_parts(addr as *const u8, s).iter().all(|&b| b == p) }, None => false } }
    /// verify every live block; returns the first corrupted one
    /// # Safety: all registered blocks must still be live
    pub unsafe fn verify_all(&mut self) -> Option<(usize, usize)> { let keys: Vec<usize> = self.live.keys().copied().collect(); for a in keys { if !unsafe { self.verify(a) } { return Some((a, self.live[&a].0)); } } None }
    pub fn remove(&mut self, addr: usize) -> Option<(usize, u8)> { self.live.remove(&addr) }
    pub fn len(&self) -> usize { self.live.len() }
    pub fn nth(&self, i: usize) -> Option<(usize, usize, u8)> { self.live.iter().nth(i).map(|(&a, &(s, p))| (a, s, p)) }
}
