"""Per-property configuration of the orchestrator: passes per tier, evidence rule text, assumptions."""

FAST = {"variant": "fast"}

def q(budget=90, **kw):
    d = {"variant": "fast", "budget_s": budget}; d.update(kw); return d

PROPS = {
    "C04": {
        "level": "exploration",
        "technique": "runtime monitoring: differential oracle (bit-by-bit definition) over generated bit strings, all implementations and CPU tiers",
        "level_text": "Every rank/select implementation and entry point is executed on generated bit strings (boundary lengths, densities, runs) and each answer is compared online with the definition computed from the generating Vec<bool>; thorough repeats under forced AVX2/SSE4.2/scalar tiers. Held-on-what-was-observed, not a proof.",
        "level_note": "Trusted: the harness's naive prefix-sum model; BitVector::push storing the bits (cross-checked through get). Not covered: inputs no run generated; NEON.",
        "rule": "case = (implementation target, bit-string family, index); bit string generated from the case PRNG (9 families x boundary/random lengths). "
                "Oracle = definition evaluated bit by bit. Non-trivial: length >= 2. Distinct: distinct (target, structural hash of generator+content+options).",
        "assumptions": ["BitVector::push/from_raw_bits faithfully store the generated bits (cross-checked by get(i) against the generating Vec<bool>)",
                        "positions probed: all for len<=4096, else all 64/256/512/2048/65536-bit block boundaries +-1 plus 2000 random"],
        "quick": [q(90)],
        "thorough": [q(1200), {"variant": "fast", "name": "tier-avx2", "env": {"ZIPORA_VERIF_CPU_TIER": "avx2"}, "budget_s": 300, "scale": 0.25},
                     {"variant": "fast", "name": "tier-sse42", "env": {"ZIPORA_VERIF_CPU_TIER": "sse42"}, "budget_s": 300, "scale": 0.25},
                     {"variant": "fast", "name": "tier-scalar", "env": {"ZIPORA_VERIF_CPU_TIER": "scalar"}, "budget_s": 300, "scale": 0.25}],
    },
}
