"""Per-property configuration of the orchestrator: passes per tier, evidence rule text, assumptions."""

FAST = {"variant": "fast"}

def q(budget=90, **kw):
    d = {"variant": "fast", "budget_s": budget}; d.update(kw); return d

def diff_prop(technique, level_text, level_note, rule, assumptions=(), quick_budget=90, thorough_budget=1200, level="exploration", quick_extra=(), thorough_extra=(), **kw):
    d = {"level": level, "technique": technique, "level_text": level_text, "level_note": level_note, "rule": rule, "assumptions": list(assumptions),
         "quick": [q(quick_budget)] + list(quick_extra), "thorough": [q(thorough_budget)] + list(thorough_extra)}
    d.update(kw)
    return d

TIERS = [{"variant": "fast", "name": "tier-avx2", "env": {"ZIPORA_VERIF_CPU_TIER": "avx2"}, "budget_s": 300, "scale": 0.25},
         {"variant": "fast", "name": "tier-sse42", "env": {"ZIPORA_VERIF_CPU_TIER": "sse42"}, "budget_s": 300, "scale": 0.25},
         {"variant": "fast", "name": "tier-scalar", "env": {"ZIPORA_VERIF_CPU_TIER": "scalar"}, "budget_s": 300, "scale": 0.25}]

PROPS = {
    "C04": {
        "level": "exploration",
        "technique": "runtime monitoring: differential oracle (bit-by-bit definition) over generated bit strings, all implementations and CPU tiers",
        "level_text": "Every rank/select implementation and entry point is executed on generated bit strings (boundary lengths, densities, runs) and each answer is compared online with the definition computed from the generating Vec<bool>; thorough repeats under forced AVX2/SSE4.2/scalar tiers. Held-on-what-was-observed, not a proof.",
        "level_note": "Trusted: the harness's naive prefix-sum model; BitVector::push storing the bits (cross-checked through get). Not covered: inputs no run generated; NEON.",
        "rule": "case = (implementation target, bit-string family, index); bit string generated from the case PRNG (9 families x boundary/random lengths). "
                "Oracle = definition evaluated bit by bit. Non-trivial: length >= 2. Distinct: distinct (target, structural hash of generator+content+options).",
        "assumptions": ["BitVector::push/from_raw_bits faithfully store the generated bits (cross-checked by get(i) against the generating Vec<bool>)",
                        "positions probed: all for len<=4096, else all 64/256/512/2048/65536-bit block boundaries +-1 plus 2000 random"],
        "quick": [q(90)],
        "thorough": [q(1200), {"variant": "fast", "name": "tier-avx2", "env": {"ZIPORA_VERIF_CPU_TIER": "avx2"}, "budget_s": 300, "scale": 0.25},
                     {"variant": "fast", "name": "tier-sse42", "env": {"ZIPORA_VERIF_CPU_TIER": "sse42"}, "budget_s": 300, "scale": 0.25},
                     {"variant": "fast", "name": "tier-scalar", "env": {"ZIPORA_VERIF_CPU_TIER": "scalar"}, "budget_s": 300, "scale": 0.25}],
    },
    "C16": {
        "level": "exploration",
        "technique": "runtime monitoring: controlled schedule-point scheduler (random/PCT/stall scripts) with shadow token registry + invariant at every schedule point; free-running stress; Miri and AddressSanitizer on the same histories",
        "level_text": "2-3 client threads run short acquire/release/cache histories against one VersionManager/TokenManager under a scheduler that serialises them at hook points inside the token code; a shadow registry of live tokens decides writer exclusion, min_version <= every live token, reclamation callbacks and counter agreement at every schedule point; sequential multi-manager lifetime histories run natively (count bounds), under AddressSanitizer and under Miri (use-after-free / data race reports). Interleavings are sampled (distinct schedule hashes are counted), not enumerated.",
        "level_note": "Trusted: the harness registry (register after acquire returns, deregister before drop - sound because only one participant runs between schedule points); hook sites are the only pre-emption points in controlled mode, other windows are reached only by the free-running/Miri/TSan passes. Weak-memory behaviour limited to Miri's model and x86.",
        "rule": "case = one execution: (target, generated op lists per thread, strategy, scheduler seed). Non-trivial: >= 4 schedule steps (conc) / >= 4 ops (lifetime). Distinct: distinct (target, ops, schedule-trace hash).",
        "assumptions": ["schedule points are only at verif-hooks sites and between client operations", "token versions are unique per token in the synchronised levels (used to recognise cache hits)"],
        "required_sites": [500, 501, 509, 510, 520, 530],
        "quick": [q(60), {"variant": "asan", "name": "asan", "scale": 0.25, "budget_s": 60, "leaks": 1},
                  {"variant": "miri", "name": "miri", "shards": 12, "budget_s": 200, "timeout_s": 900}],
        "thorough": [q(900), {"variant": "asan", "name": "asan", "scale": 0.3, "budget_s": 600, "leaks": 1},
                     {"variant": "tsan", "name": "tsan", "targets": ["stress/*"], "budget_s": 600, "scale": 0.5, "shards": 4},
                     {"variant": "miri", "name": "miri", "shards": 16, "budget_s": 900, "timeout_s": 3000, "scale": 8, "args": []}],
    },
    "C08": {
        "level": "exploration",
        "technique": "runtime monitoring: controlled schedule-point scheduler inside the pools' pop/push paths + ownership/content shadow monitors + quiescent free-structure walk (hook H2); AddressSanitizer and Miri on the same executions",
        "level_text": "2-3 client threads run short alloc/free lists against a fresh pool (SecureMemoryPool, LockFreeMemoryPool, five-level LockFreePool and MutexBasedPool, FixedCapacityMemoryPool; global size-class pools free-running) under a scheduler that interleaves them at hook points between head load, next read and compare-exchange; an ownership map flags any block handed out while another owner still holds an overlapping range, contents are stamped and re-read, and after join the free structures are walked (no cycle, no duplicate, nothing lost, counters add up). The same executions run under AddressSanitizer and Miri so that a read of a freed node is a report. Interleavings are sampled, not enumerated.",
        "level_note": "Trusted: harness ownership map (register after allocate returns / remove before free: sound under any schedule); H2 walkers are read-only and used only after all clients joined. TSan / Miri data-race detection are NOT used for the tagged free lists: a stale read of the next link that is discarded by the failing compare-exchange is by design there and outside the property.",
        "rule": "case = one execution: (pool kind, config, per-thread op lists, strategy, scheduler seed). Non-trivial: >= 3 successful allocations. Distinct: distinct (pool, ops, schedule-trace hash).",
        "assumptions": ["pre-emption only at verif-hooks sites and between client operations in controlled mode"],
        "required_sites": [100, 101, 102, 200, 201, 211, 301, 311, 401, 411],
        "quick": [q(60), {"variant": "asan", "name": "asan", "scale": 0.25, "budget_s": 60, "leaks": 0},
                  {"variant": "miri", "name": "miri", "shards": 12, "budget_s": 240, "timeout_s": 900, "miriflags": "-Zmiri-ignore-leaks -Zmiri-disable-data-race-detector"}],
        "thorough": [q(900), {"variant": "asan", "name": "asan", "scale": 0.3, "budget_s": 600, "leaks": 0},
                     {"variant": "miri", "name": "miri", "shards": 16, "budget_s": 900, "timeout_s": 3000, "scale": 6, "miriflags": "-Zmiri-ignore-leaks -Zmiri-disable-data-race-detector"}],
    },
    "C11": diff_prop(
        technique="runtime monitoring: differential oracle (std sort / two-pointer set algebra / multiset equality) over generated sequences and every strategy/config knob",
        level_text="Every sorting, merging and set-operation entry point (RadixSort u32/u64/bytes, KeyValueRadixSort, AdvancedRadixSort with each forced strategy / radix width / parallel setting, CacheObliviousSort, ReplaceSelectSort and external sort with tiny buffers, multi-way merge, loser tree for 0..64 ways, SIMD merge, both set-operation modules) is run on generated inputs (empty, single, all-equal, sorted, reversed, high-byte-only differences, lengths around the strategy thresholds) and compared with the standard-library result; variants of the same operation are compared with each other.",
        level_note="Trusted: std sort/merge as the oracle. Deep-recursion failures kill the worker and are attributed through BEGIN/END markers. Not covered: inputs larger than a few MiB, the valgrind tier.",
        rule="case = (target, generator family, index) -> input sequence(s) + configuration; non-trivial: more than one element (or more than one way); distinct: structural hash of target+config+content."),
    "C05": diff_prop(
        technique="runtime monitoring: online differential oracle (BTreeSet model) over generated insert/remove/lookup histories for every trie strategy and wrapper",
        level_text="Operation histories (tiny alphabets, shared prefixes, empty key, 0x00/0xFF bytes, keys beyond the path-compression limit) are executed on every ZiporaTrie preset / hand-built strategy x storage config, the legacy wrappers, the DAWG types and ParallelLoudsTrie; after every operation the return value and len are compared with a BTreeSet model and periodically the full observable state (contains on members and near misses, keys, keys_with_prefix, iteration, accepts, longest_prefix, re-insert).",
        level_note="Trusted: BTreeSet model. Targets with an open known finding (critical-bit strategy, LOUDS remove, DAWG insert-after-build) are additionally pinned by a seed-independent corpus so that a behaviour change inside them is still reported.",
        rule="case = (target, key-generator mode, index) -> operation history; non-trivial: >= 2 distinct keys inserted; distinct: structural hash of target+history.", quick_budget=120),
    "C06": diff_prop(
        technique="runtime monitoring: online differential oracle (std HashMap model) over generated histories, adversarial hashers (0, u64::MAX, collisions) and every storage/hash preset",
        level_text="Histories of insert/remove/get/get_mut/clear/iterate over tiny key spaces (delete then re-insert) and growth to 10^4 keys run on ZiporaHashMap (all presets and strategy combinations, 8 deterministic hashers incl. constant 0 / u64::MAX / low-bit collisions), GoldHashMap (u32/u64 links, all configs, revoke_deleted, both iteration strategies), GoldHashIdx, SmallMap across the inline threshold in both directions, EasyHashMap and HashStrMap; every return value, len and periodically the iteration multiset are compared with std::collections::HashMap.",
        level_note="Trusted: std HashMap as model; hashers are deterministic so verdicts do not depend on RandomState. The three ZiporaHashMap back ends that are unimplemented stubs are an open known finding.",
        rule="case = (target, hasher, history family, index); non-trivial: >= 3 mutating ops; distinct: structural hash of target+hasher+history."),
    "C09": diff_prop(
        technique="runtime monitoring: differential oracle (the input slice) over generated integer sequences for every element type, constructor and compression strategy; AddressSanitizer pass for the packed-buffer tail",
        level_text="IntVec<u8..u64,i8..i64> (from_slice / bulk / bulk_simd), UintVector, UintVecMin0, ZipIntVec and SortedUintVec (all configs, log2 block units 4..8) are built from generated sequences (constant, sorted, small range, full range, outliers, type extremes, exact bit widths, lengths around 64/128-element blocks and the strategy thresholds) and every element is read back and compared, together with len and the refusal of out-of-range reads; the chosen strategy is recorded so that evidence shows every CompressionStrategy was hit. The same cases run under AddressSanitizer.",
        level_note="Trusted: the input slice as oracle. An Err from a constructor is accepted (the statement allows 'reports an error').",
        rule="case = (target, integer family, index) -> sequence; non-trivial: len >= 2 and constructor Ok; distinct: structural hash.",
        quick_extra=[{"variant": "asan", "name": "asan", "scale": 0.3, "budget_s": 90, "leaks": 0}],
        thorough_extra=[{"variant": "asan", "name": "asan", "scale": 0.3, "budget_s": 600, "leaks": 0}, {"variant": "rel", "name": "release", "scale": 0.3, "budget_s": 300}]),
    "C10": diff_prop(
        technique="runtime monitoring: online differential oracle (Vec / VecDeque / Vec<String> models) with exact drop accounting; Miri and AddressSanitizer on micro histories",
        level_text="Histories of push/pop/insert/remove/resize/extend/fill/clear/shrink/clone (vectors) and push_back/pop_front/push_bulk/pop_bulk/reserve/clear/clone (queues, every capacity x head offset x growth path) run on FastVec, ValVec32, CacheAlignedVec, BumpVec, PooledVec, MmapVec, FixedCircularQueue, AutoGrowCircularQueue and the string vectors with a drop-counting element type; content is compared after every operation, out-of-range and empty/full refusals are checked, and at the end no element may be leaked or dropped twice. Micro histories additionally run under Miri and AddressSanitizer.",
        level_note="Trusted: std containers as models, the Tracked element type's per-thread live set. UltraFastCircularQueue is not compiled into the crate and is not covered.",
        rule="case = (target, history family, index); non-trivial: >= 3 mutating ops; distinct: structural hash of target+history.",
        quick_extra=[{"variant": "asan", "name": "asan", "scale": 0.25, "budget_s": 90, "leaks": 0},
                     {"variant": "miri", "name": "miri", "shards": 12, "budget_s": 240, "timeout_s": 900, "gens": ["micro"], "scale": 0.05, "miriflags": "-Zmiri-ignore-leaks"}],
        thorough_extra=[{"variant": "asan", "name": "asan", "scale": 0.3, "budget_s": 600, "leaks": 0}]),
    "C01": diff_prop(
        technique="runtime monitoring: identity oracle decode(encode(x), |x|) == x over generated payload/training pairs for every entropy codec variant, stream count and preset",
        level_text="42 codec targets (Huffman order-0 and its serialised tree, contextual Huffman order 0/1/2, the 1/2/4/8-way interleaved order-1 coders, rANS with 1/2/4/8 streams and adaptive, FSE in every preset incl. parallel blocks, dictionary and non-adaptive tables, the LZ dictionary coders, parallel and SIMD Huffman on each tier) are run on generated inputs (14 byte families, boundary lengths, deep-tree Fibonacci/geometric profiles, rare symbols, lengths in every residue of the stream count, payload symbols the training never saw) with training equal to / unrelated to / overlapping the payload; whenever the encoder returns Ok, decoding with the original length must give back the input.",
        level_note="Trusted: byte equality. Encoder Err is accepted (the statement conditions on success) and counted per target. Not covered: payloads >= 4 GiB.",
        rule="case = (target, family, index) -> (training, payload); non-trivial: |x| >= 2 and encoder Ok; distinct: structural hash of target+training+payload.", quick_budget=120),
    "C14": diff_prop(
        technique="runtime monitoring: differential oracle (portable scalar definition / std function) over every length, alignment and needle position, repeated under forced CPU tiers; guard-page children for over-reads",
        level_text="Every run-time dispatched kernel (SimdMemOps copy/fill/compare/search, io::simd_memory copy and search, string SIMD search, BMI2 string ops, UTF-8 validation and counting, CRC32C, Base64 (two modules) and hex, bit-manipulation helpers, hash-map string ops, FastVec fast ops, the adaptive selector) is compared with its scalar definition on all lengths 0..200 and around 256/4096/page size, all alignments 0..63, needle at every position, bytes >= 0x80, and a UTF-8 corpus with 22 defect kinds; inputs ending exactly at a PROT_NONE guard page run in forked children so an over-read is a verdict. The quick tier runs native + forced scalar; thorough adds avx2 and sse42.",
        level_note="Trusted: the harness-side scalar definitions and std (from_utf8, cmp). is_x86_feature_detected! sites cannot be forced below the native tier except through valgrind (not run). Sub-checks whose contract is ambiguous (sse42_strcmp length-first order, BitOps without fallback, hash_string_bmi2 >= 8 bytes, byte-vs-char classification on non-ASCII) are recorded as notes, not asserted.",
        rule="case = (target, family, index) -> input buffers/offsets; non-trivial: input length >= 1; distinct: structural hash.",
        quick_extra=[{"variant": "fast", "name": "tier-scalar", "env": {"ZIPORA_VERIF_CPU_TIER": "scalar"}, "budget_s": 60, "scale": 0.5},
                     {"variant": "fast", "name": "tier-sse42", "env": {"ZIPORA_VERIF_CPU_TIER": "sse42"}, "budget_s": 60, "scale": 0.5}],
        thorough_extra=TIERS),
    "C17": diff_prop(
        technique="runtime monitoring: exact LRU reference model with eviction-callback log and drop accounting; file-bytes oracle for the page cache; per-key history checks and a scripted schedule for the concurrent maps",
        level_text="LruMap (all presets, capacities 1..8, key space capacity+1..2x) and ConcurrentLruMap (1..8 shards, each load-balancing strategy) run generated get/put/remove/clear/contains histories against an ordered-list LRU model: return values, len <= capacity, which entry is evicted, callback exactly once with the right key and value; page caches (all configs) are read at arbitrary offsets/lengths incl. page-straddling, EOF-crossing and overflow-prone ranges with invalidation and prefetch against the file's bytes; CachedBlobStore is compared with the store it wraps; FSA caches likewise. Concurrent targets (free-running threads with unique values, and one scripted get/evict window) check per-key that a returned value was put for that key.",
        level_note="Trusted: harness LRU model; Tracked drop accounting. Concurrent targets are free-running (no schedule control inside LruMap): violations found there are sound, absence is weaker evidence.",
        rule="case = (target, family, index) -> access history / read plan; non-trivial: >= 3 operations; distinct: structural hash."),
    "C20": diff_prop(
        technique="runtime monitoring: differential oracle (byte-slice semantics, exact decimal comparison, sorted model) incl. antisymmetry/transitivity over generated pools of numeric strings",
        level_text="FastStr equality/ordering/hash/search/slicing against the same operations on &[u8] (copies at different alignments); decimal_strcmp / realnum_strcmp (with and without sign) against an exact comparison of normalised (sign, integer digits, fraction digits) on pools of 8-12 strings with all pairs and triples checked for antisymmetry and transitivity and invalid inputs rejected; lexicographic iterators, SortableStrVec and ZoSortedStrVec enumeration against a sorted model with duplicates and empty strings, seek/lower/upper bound positions; join, word boundary, line processing (all line-ending mixes) and case conversion against their definitions.",
        level_note="Trusted: harness-side exact decimal comparison and std sort. Inputs whose validity the documentation leaves open ('5.', '.5') accept either answer.",
        rule="case = (target, family, index) -> strings / pools / lists; non-trivial: non-empty input; distinct: structural hash."),
}
