"""Per-property configuration of the orchestrator: passes per tier, evidence rule text, assumptions."""

FAST = {"variant": "fast"}

def q(budget=90, **kw):
    d = {"variant": "fast", "budget_s": budget}; d.update(kw); return d

QUICK_SCALE = {"C01": 3, "C04": 6, "C05": 3, "C06": 8, "C07": 4, "C09": 10, "C10": 4, "C11": 12, "C12": 4, "C13": 15, "C14": 6, "C17": 6, "C18": 2, "C19": 4, "C20": 12}

def diff_prop(technique, level_text, level_note, rule, assumptions=(), quick_budget=90, thorough_budget=1200, level="exploration", quick_extra=(), thorough_extra=(), **kw):
    d = {"level": level, "technique": technique, "level_text": level_text, "level_note": level_note, "rule": rule, "assumptions": list(assumptions),
         "quick": [q(quick_budget)] + list(quick_extra), "thorough": [q(thorough_budget)] + list(thorough_extra)}
    d.update(kw)
    return d

TIERS = [{"variant": "fast", "name": "tier-avx2", "env": {"ZIPORA_VERIF_CPU_TIER": "avx2"}, "budget_s": 300, "scale": 0.25},
         {"variant": "fast", "name": "tier-sse42", "env": {"ZIPORA_VERIF_CPU_TIER": "sse42"}, "budget_s": 300, "scale": 0.25},
         {"variant": "fast", "name": "tier-scalar", "env": {"ZIPORA_VERIF_CPU_TIER": "scalar"}, "budget_s": 300, "scale": 0.25}]

PROPS = {
    "C04": {
        "level": "exploration",
        "technique": "runtime monitoring: differential oracle (bit-by-bit definition) over generated bit strings, all implementations and CPU tiers",
        "level_text": "Every rank/select implementation and entry point is executed on generated bit strings (boundary lengths, densities, runs) and each answer is compared online with the definition computed from the generating Vec<bool>; thorough repeats under forced AVX2/SSE4.2/scalar tiers. Held-on-what-was-observed, not a proof.",
        "level_note": "Trusted: the harness's naive prefix-sum model; BitVector::push storing the bits (cross-checked through get). Not covered: inputs no run generated; NEON.",
        "rule": "case = (implementation target, bit-string family, index); bit string generated from the case PRNG (9 families x boundary/random lengths). "
                "Oracle = definition evaluated bit by bit. Non-trivial: length >= 2. Distinct: distinct (target, structural hash of generator+content+options).",
        "assumptions": ["BitVector::push/from_raw_bits faithfully store the generated bits (cross-checked by get(i) against the generating Vec<bool>)",
                        "positions probed: all for len<=4096, else all 64/256/512/2048/65536-bit block boundaries +-1 plus 2000 random"],
        "quick": [q(90)],
        "thorough": [q(1200), {"variant": "fast", "name": "tier-avx2", "env": {"ZIPORA_VERIF_CPU_TIER": "avx2"}, "budget_s": 300, "scale": 0.25},
                     {"variant": "fast", "name": "tier-sse42", "env": {"ZIPORA_VERIF_CPU_TIER": "sse42"}, "budget_s": 300, "scale": 0.25},
                     {"variant": "fast", "name": "tier-scalar", "env": {"ZIPORA_VERIF_CPU_TIER": "scalar"}, "budget_s": 300, "scale": 0.25}],
    },
    "C16": {
        "level": "exploration",
        "technique": "runtime monitoring: controlled schedule-point scheduler (random/PCT/stall scripts) with shadow token registry + invariant at every schedule point; free-running stress; Miri and AddressSanitizer on the same histories",
        "level_text": "2-3 client threads run short acquire/release/cache histories against one VersionManager/TokenManager under a scheduler that serialises them at hook points inside the token code; a shadow registry of live tokens decides writer exclusion, min_version <= every live token, reclamation callbacks and counter agreement at every schedule point; sequential multi-manager lifetime histories run natively (count bounds), under AddressSanitizer and under Miri (use-after-free / data race reports). Interleavings are sampled (distinct schedule hashes are counted), not enumerated.",
        "level_note": "Trusted: the harness registry (register after acquire returns, deregister before drop - sound because only one participant runs between schedule points); hook sites are the only pre-emption points in controlled mode, other windows are reached only by the free-running/Miri/TSan passes. Weak-memory behaviour limited to Miri's model and x86.",
        "rule": "case = one execution: (target, generated op lists per thread, strategy, scheduler seed). Non-trivial: >= 4 schedule steps (conc) / >= 4 ops (lifetime). Distinct: distinct (target, ops, schedule-trace hash).",
        "assumptions": ["schedule points are only at verif-hooks sites and between client operations", "token versions are unique per token in the synchronised levels (used to recognise cache hits)"],
        "required_sites": [500, 501, 509, 510, 520, 530],
        "quick": [q(60), {"variant": "asan", "name": "asan", "scale": 0.25, "budget_s": 60, "leaks": 1},
                  {"variant": "miri", "name": "miri", "shards": 12, "budget_s": 200, "timeout_s": 900}],
        "thorough": [q(900), {"variant": "asan", "name": "asan", "scale": 0.3, "budget_s": 600, "leaks": 1},
                     {"variant": "tsan", "name": "tsan", "targets": ["stress/*"], "budget_s": 600, "scale": 0.5, "shards": 4},
                     {"variant": "miri", "name": "miri", "shards": 16, "budget_s": 900, "timeout_s": 3000, "scale": 8, "args": []}],
    },
    "C08": {
        "level": "exploration",
        "technique": "runtime monitoring: controlled schedule-point scheduler inside the pools' pop/push paths + ownership/content shadow monitors + quiescent free-structure walk (hook H2); AddressSanitizer and Miri on the same executions",
        "level_text": "2-3 client threads run short alloc/free lists against a fresh pool (SecureMemoryPool, LockFreeMemoryPool, five-level LockFreePool and MutexBasedPool, FixedCapacityMemoryPool; global size-class pools free-running) under a scheduler that interleaves them at hook points between head load, next read and compare-exchange; an ownership map flags any block handed out while another owner still holds an overlapping range, contents are stamped and re-read, and after join the free structures are walked (no cycle, no duplicate, nothing lost, counters add up). The same executions run under AddressSanitizer and Miri so that a read of a freed node is a report. Interleavings are sampled, not enumerated.",
        "level_note": "Trusted: harness ownership map (register after allocate returns / remove before free: sound under any schedule); H2 walkers are read-only and used only after all clients joined. TSan / Miri data-race detection are NOT used for the tagged free lists: a stale read of the next link that is discarded by the failing compare-exchange is by design there and outside the property.",
        "rule": "case = one execution: (pool kind, config, per-thread op lists, strategy, scheduler seed). Non-trivial: >= 3 successful allocations. Distinct: distinct (pool, ops, schedule-trace hash).",
        "assumptions": ["pre-emption only at verif-hooks sites and between client operations in controlled mode"],
        "required_sites": [100, 101, 102, 200, 201, 211, 301, 311, 401, 411],
        "quick": [q(60), {"variant": "asan", "name": "asan", "scale": 0.25, "budget_s": 60, "leaks": 0},
                  {"variant": "miri", "name": "miri", "shards": 12, "budget_s": 240, "timeout_s": 900, "miriflags": "-Zmiri-ignore-leaks -Zmiri-disable-data-race-detector"}],
        "thorough": [q(900), {"variant": "asan", "name": "asan", "scale": 0.3, "budget_s": 600, "leaks": 0},
                     {"variant": "miri", "name": "miri", "shards": 16, "budget_s": 900, "timeout_s": 3000, "scale": 6, "miriflags": "-Zmiri-ignore-leaks -Zmiri-disable-data-race-detector"}],
    },
    "C11": diff_prop(
        technique="runtime monitoring: differential oracle (std sort / two-pointer set algebra / multiset equality) over generated sequences and every strategy/config knob",
        level_text="Every sorting, merging and set-operation entry point (RadixSort u32/u64/bytes, KeyValueRadixSort, AdvancedRadixSort with each forced strategy / radix width / parallel setting, CacheObliviousSort, ReplaceSelectSort and external sort with tiny buffers, multi-way merge, loser tree for 0..64 ways, SIMD merge, both set-operation modules) is run on generated inputs (empty, single, all-equal, sorted, reversed, high-byte-only differences, lengths around the strategy thresholds) and compared with the standard-library result; variants of the same operation are compared with each other.",
        level_note="Trusted: std sort/merge as the oracle. Deep-recursion failures kill the worker and are attributed through BEGIN/END markers. Not covered: inputs larger than a few MiB, the valgrind tier.",
        rule="case = (target, generator family, index) -> input sequence(s) + configuration; non-trivial: more than one element (or more than one way); distinct: structural hash of target+config+content."),
    "C05": diff_prop(
        technique="runtime monitoring: online differential oracle (BTreeSet model) over generated insert/remove/lookup histories for every trie strategy and wrapper",
        level_text="Operation histories (tiny alphabets, shared prefixes, empty key, 0x00/0xFF bytes, keys beyond the path-compression limit) are executed on every ZiporaTrie preset / hand-built strategy x storage config, the legacy wrappers, the DAWG types and ParallelLoudsTrie; after every operation the return value and len are compared with a BTreeSet model and periodically the full observable state (contains on members and near misses, keys, keys_with_prefix, iteration, accepts, longest_prefix, re-insert).",
        level_note="Trusted: BTreeSet model. Targets with an open known finding (critical-bit strategy, LOUDS remove, DAWG insert-after-build) are additionally pinned by a seed-independent corpus so that a behaviour change inside them is still reported.",
        rule="case = (target, key-generator mode, index) -> operation history; non-trivial: >= 2 distinct keys inserted; distinct: structural hash of target+history.", quick_budget=120,
        # the huge_long_key family normally runs on a 1 GiB-stack thread; this pass runs it on the default stack, where the
        # recursive key enumeration overflows the stack for keys longer than ~47 KiB (known finding KF-C05-deep-enumeration)
        quick_extra=[{"variant": "fast", "name": "deep-enum", "env": {"ZV_C05_MAIN_STACK": "1"}, "gens": ["huge_long_key"], "shards": 4, "budget_s": 120}],
        thorough_extra=[{"variant": "fast", "name": "deep-enum", "env": {"ZV_C05_MAIN_STACK": "1"}, "gens": ["huge_long_key"], "shards": 4, "budget_s": 300}]),
    "C06": diff_prop(
        technique="runtime monitoring: online differential oracle (std HashMap model) over generated histories, adversarial hashers (0, u64::MAX, collisions) and every storage/hash preset",
        level_text="Histories of insert/remove/get/get_mut/clear/iterate over tiny key spaces (delete then re-insert) and growth to 10^4 keys run on ZiporaHashMap (all presets and strategy combinations, 8 deterministic hashers incl. constant 0 / u64::MAX / low-bit collisions), GoldHashMap (u32/u64 links, all configs, revoke_deleted, both iteration strategies), GoldHashIdx, SmallMap across the inline threshold in both directions, EasyHashMap and HashStrMap; every return value, len and periodically the iteration multiset are compared with std::collections::HashMap.",
        level_note="Trusted: std HashMap as model; hashers are deterministic so verdicts do not depend on RandomState. The three ZiporaHashMap back ends that are unimplemented stubs are an open known finding.",
        rule="case = (target, hasher, history family, index); non-trivial: >= 3 mutating ops; distinct: structural hash of target+hasher+history."),
    "C09": diff_prop(
        technique="runtime monitoring: differential oracle (the input slice) over generated integer sequences for every element type, constructor and compression strategy; AddressSanitizer pass for the packed-buffer tail",
        level_text="IntVec<u8..u64,i8..i64> (from_slice / bulk / bulk_simd), UintVector, UintVecMin0, ZipIntVec and SortedUintVec (all configs, log2 block units 4..8) are built from generated sequences (constant, sorted, small range, full range, outliers, type extremes, exact bit widths, lengths around 64/128-element blocks and the strategy thresholds) and every element is read back and compared, together with len and the refusal of out-of-range reads; the chosen strategy is recorded so that evidence shows every CompressionStrategy was hit. The same cases run under AddressSanitizer.",
        level_note="Trusted: the input slice as oracle. An Err from a constructor is accepted (the statement allows 'reports an error').",
        rule="case = (target, integer family, index) -> sequence; non-trivial: len >= 2 and constructor Ok; distinct: structural hash.",
        quick_extra=[{"variant": "asan", "name": "asan", "scale": 0.3, "budget_s": 90, "leaks": 0}],
        thorough_extra=[{"variant": "asan", "name": "asan", "scale": 0.3, "budget_s": 600, "leaks": 0}, {"variant": "rel", "name": "release", "scale": 0.3, "budget_s": 300}]),
    "C10": diff_prop(
        technique="runtime monitoring: online differential oracle (Vec / VecDeque / Vec<String> models) with exact drop accounting; Miri and AddressSanitizer on micro histories",
        level_text="Histories of push/pop/insert/remove/resize/extend/fill/clear/shrink/clone (vectors) and push_back/pop_front/push_bulk/pop_bulk/reserve/clear/clone (queues, every capacity x head offset x growth path) run on FastVec, ValVec32, CacheAlignedVec, BumpVec, PooledVec, MmapVec, FixedCircularQueue, AutoGrowCircularQueue and the string vectors with a drop-counting element type; content is compared after every operation, out-of-range and empty/full refusals are checked, and at the end no element may be leaked or dropped twice. Micro histories additionally run under AddressSanitizer (quick) and Miri (thorough).",
        level_note="Trusted: std containers as models, the Tracked element type's per-thread live set. UltraFastCircularQueue is not compiled into the crate and is not covered.",
        rule="case = (target, history family, index); non-trivial: >= 3 mutating ops; distinct: structural hash of target+history.",
        quick_extra=[{"variant": "asan", "name": "asan", "scale": 0.25, "budget_s": 90, "leaks": 0}],
        thorough_extra=[{"variant": "asan", "name": "asan", "scale": 0.3, "budget_s": 600, "leaks": 0},
                        {"variant": "miri", "name": "miri", "shards": 16, "budget_s": 900, "timeout_s": 2400, "gens": ["micro"], "scale": 0.3, "miriflags": "-Zmiri-ignore-leaks",
                         "targets": ["fastvec", "cachevec", "bumpvec", "pooledvec", "autoq", "fixedq_*", "sortable", "fixedlen_*", "bitpacked*", "advstr_*"]}]),
    "C01": diff_prop(
        technique="runtime monitoring: identity oracle decode(encode(x), |x|) == x over generated payload/training pairs for every entropy codec variant, stream count and preset",
        level_text="42 codec targets (Huffman order-0 and its serialised tree, contextual Huffman order 0/1/2, the 1/2/4/8-way interleaved order-1 coders, rANS with 1/2/4/8 streams and adaptive, FSE in every preset incl. parallel blocks, dictionary and non-adaptive tables, the LZ dictionary coders, parallel and SIMD Huffman on each tier) are run on generated inputs (14 byte families, boundary lengths, deep-tree Fibonacci/geometric profiles, rare symbols, lengths in every residue of the stream count, payload symbols the training never saw) with training equal to / unrelated to / overlapping the payload; whenever the encoder returns Ok, decoding with the original length must give back the input.",
        level_note="Trusted: byte equality. Encoder Err is accepted (the statement conditions on success) and counted per target. Not covered: payloads >= 4 GiB.",
        rule="case = (target, family, index) -> (training, payload); non-trivial: |x| >= 2 and encoder Ok; distinct: structural hash of target+training+payload.", quick_budget=120),
    "C14": diff_prop(
        technique="runtime monitoring: differential oracle (portable scalar definition / std function) over every length, alignment and needle position, repeated under forced CPU tiers; guard-page children for over-reads",
        level_text="Every run-time dispatched kernel (SimdMemOps copy/fill/compare/search, io::simd_memory copy and search, string SIMD search, BMI2 string ops, UTF-8 validation and counting, CRC32C, Base64 (two modules) and hex, bit-manipulation helpers, hash-map string ops, FastVec fast ops, the adaptive selector) is compared with its scalar definition on all lengths 0..200 and around 256/4096/page size, all alignments 0..63, needle at every position, bytes >= 0x80, and a UTF-8 corpus with 22 defect kinds; inputs ending exactly at a PROT_NONE guard page run in forked children so an over-read is a verdict. The quick tier runs native + forced scalar; thorough adds avx2 and sse42.",
        level_note="Trusted: the harness-side scalar definitions and std (from_utf8, cmp). is_x86_feature_detected! sites cannot be forced below the native tier except through valgrind (not run). Sub-checks whose contract is ambiguous (sse42_strcmp length-first order, BitOps without fallback, hash_string_bmi2 >= 8 bytes, byte-vs-char classification on non-ASCII) are recorded as notes, not asserted.",
        rule="case = (target, family, index) -> input buffers/offsets; non-trivial: input length >= 1; distinct: structural hash.",
        quick_extra=[{"variant": "fast", "name": "tier-scalar", "env": {"ZIPORA_VERIF_CPU_TIER": "scalar"}, "budget_s": 60, "scale": 0.5},
                     {"variant": "fast", "name": "tier-sse42", "env": {"ZIPORA_VERIF_CPU_TIER": "sse42"}, "budget_s": 60, "scale": 0.5}],
        thorough_extra=TIERS),
    "C17": diff_prop(
        technique="runtime monitoring: exact LRU reference model with eviction-callback log and drop accounting; file-bytes oracle for the page cache; per-key history checks and a scripted schedule for the concurrent maps",
        level_text="LruMap (all presets, capacities 1..8, key space capacity+1..2x) and ConcurrentLruMap (1..8 shards, each load-balancing strategy) run generated get/put/remove/clear/contains histories against an ordered-list LRU model: return values, len <= capacity, which entry is evicted, callback exactly once with the right key and value; page caches (all configs) are read at arbitrary offsets/lengths incl. page-straddling, EOF-crossing and overflow-prone ranges with invalidation and prefetch against the file's bytes; CachedBlobStore is compared with the store it wraps; FSA caches likewise. Concurrent targets (free-running threads with unique values, and one scripted get/evict window) check per-key that a returned value was put for that key.",
        level_note="Trusted: harness LRU model; Tracked drop accounting. Concurrent targets are free-running (no schedule control inside LruMap): violations found there are sound, absence is weaker evidence.",
        rule="case = (target, family, index) -> access history / read plan; non-trivial: >= 3 operations; distinct: structural hash."),
    "C20": diff_prop(
        technique="runtime monitoring: differential oracle (byte-slice semantics, exact decimal comparison, sorted model) incl. antisymmetry/transitivity over generated pools of numeric strings",
        level_text="FastStr equality/ordering/hash/search/slicing against the same operations on &[u8] (copies at different alignments); decimal_strcmp / realnum_strcmp (with and without sign) against an exact comparison of normalised (sign, integer digits, fraction digits) on pools of 8-12 strings with all pairs and triples checked for antisymmetry and transitivity and invalid inputs rejected; lexicographic iterators, SortableStrVec and ZoSortedStrVec enumeration against a sorted model with duplicates and empty strings, seek/lower/upper bound positions; join, word boundary, line processing (all line-ending mixes) and case conversion against their definitions.",
        level_note="Trusted: harness-side exact decimal comparison and std sort. Inputs whose validity the documentation leaves open ('5.', '.5') accept either answer.",
        rule="case = (target, family, index) -> strings / pools / lists; non-trivial: non-empty input; distinct: structural hash."),
    "C18": diff_prop(
        technique="runtime monitoring: exactly-once slot counters + hook-counted idle polls (logical quiescence) for the executor; sequential-map oracle for parallel_map/reduce and pipelines under virtual time",
        level_text="Each submitted task owns a counter slot; the executor (workers 1/2/3/8 on current_thread and multi_thread(1/2/8) runtimes, task counts around the queue capacity and the %100 balance trigger, mixed priorities, stealable/non-stealable, yielding tasks, submits racing the capacity check) is observed until every worker has completed K consecutive idle polls (reported through a verif-hooks callback) since the last execution: then every accepted task must have run exactly once, is_idle() must hold and total_executed must equal the accepted count. FiberPool spawn/spawn_batch, parallel_map/for_each/reduce and concurrency::parallel_map/reduce are compared with the sequential result in input order (non-commutative reduce, failing items must surface as Err); Pipeline execute_single/two_stage/process_batch/execute_stream and BatchCollector with failing and timed-out stages under tokio's paused clock; both async blob stores round-trip.",
        level_note="Trusted: the slot counters; idle-poll reports come from a hook in worker_loop (read-only). tokio's own scheduling is sampled (runtime flavour x worker count), not controlled. A 30 s wall-clock watchdog only yields inconclusive.",
        rule="case = (target, family, index) -> executor/pipeline scenario; non-trivial: >= 2 tasks/items accepted; distinct: structural hash of target+scenario.", quick_budget=120,
        thorough_extra=[{"variant": "tsan", "name": "tsan", "targets": ["exec/*/mt*"], "budget_s": 600, "scale": 0.02, "shards": 4}]),
    "C12": diff_prop(
        technique="runtime monitoring: differential oracle (naive suffix sort, direct LCP, BWT from the naive SA, pattern scan) incl. an exhaustive small-scope enumeration",
        level_text="Every construction algorithm (SA-IS with and without the small-alphabet path, DC3, DivSufSort-style, Larsson-Sadakane, Adaptive, SuffixArray::new), LcpArray, EnhancedSuffixArray BWT, search/search_range, compression::suffix_array and SuffixArrayDictionary (find_longest_match, find_all_matches, sa_equal_range) is compared with a naive O(n^2 log n) suffix sort and brute-force pattern scan on: ALL strings over {a,b,c} up to length 6 (quick) / 9 (thorough), fixed witnesses, and 14 generated families (unary, runs, periodic, Fibonacci / Thue-Morse words, alphabets 1..256, LMS-rich texts, texts around the Adaptive thresholds); patterns present, absent, empty and longer than the text.",
        level_note="Trusted: the naive sort and scan. The sub-space 'all strings over a 3-letter alphabet up to length L' is enumerated completely (evidence marks it); everything else is sampled.",
        rule="case = (target, family, index) -> text (+patterns); non-trivial: text length >= 2; distinct: structural hash of target+text.", quick_budget=120),
    "C13": diff_prop(
        technique="runtime monitoring: round-trip + exact-consumption oracle over boundary-value generators for every integer strategy, reader/writer back end and serialiser",
        level_text="decode(encode(v)) == (v, |encode(v)|) and concatenated encodings read back in order for VarInt and all 7 strategies (u64/i64, singles and sequences, values at 0, 2^(7k)+-1, MAX/MIN), the auto-selector, the SIMD batch varint codec (byte-identical to scalar), DataOutput/DataInput over vec/writer/file/mmap/slice/reader/range back ends, endian conversion (involution, equals to_le/be_bytes), ComplexSerialize tuples/collections/options/nested, smart pointers with shared contexts, versioning incl. old-reader/new-writer skipping, RangeReader/Writer, StreamBufferedReader/Writer (capacities 1..4096, read sizes around the buffer size) and zero_copy incl. vectored I/O.",
        level_note="Trusted: value equality and byte counts. An encoder Err (documented refusal, e.g. group-varint >= 2^32, Version component > 255) is accepted.",
        rule="case = (target, family, index) -> value(s)/stream plan; non-trivial: at least one value encoded; distinct: structural hash."),
    "C19": diff_prop(
        level="fault_enumeration",
        technique="runtime monitoring with fault injection: write/sync histories, then every truncation length / block rollback / header-data swap / zero-filled extension / RLIMIT_FSIZE-interrupted library write of the files, reopened and read in a sacrificial child process and compared with the model at every sync point",
        level_text="MmapVec (7 configs x 4 element types), io::mmap input/output, PlainBlobStore directories, ZReorderMap, SuffixArrayDictionary files, DictZip persistence, ZipOffset files and external-sort run files are written through operation histories with sync points S0..Sk; fault states are generated from consecutive snapshots (every truncation length for small files and every block/header boundary +-1 above, single 4 KiB block rollbacks, header-new/data-old and vice versa, file extended with zeros, newest record missing/empty/truncated, stray tmp files, and real library writes cut short by RLIMIT_FSIZE); each state is reopened in a child process: Err is accepted, Ok must read back without fault and equal the model at some earlier sync point, a signal is a violation.",
        level_note="Trusted: the harness model of the synced states; children isolate SIGBUS/SIGSEGV. Crash states are simulated at file level (no kernel/device reordering). The formats carry no checksum, so block/header mixtures that remain self-consistent are accepted by the readers: open known finding.",
        rule="case = (target, fault family, index) -> history + fault states (several states per case); non-trivial: >= 1 fault state reopened; distinct: structural hash of target+history+family.", quick_budget=150),
    "C02": diff_prop(
        technique="runtime monitoring: identity oracle decompress(compress(x)) == x over generated payloads for every factory algorithm, adaptive/real-time front end and PA-Zip preset; bit-level codec round trip for every match kind",
        level_text="Every compressor obtainable from CompressorFactory (all available algorithms, arbitrary zstd levels, the SIMD-LZ77 trait object), HybridCompressor, AdaptiveCompressor (streams of blocks of changing character, all earlier blocks decompressed at the end), RealtimeCompressor in every mode with far and already-expired deadlines and a paused clock, the native SimdLz77Compressor configs, PaZipCompressor for the five presets with dictionaries built from same/other/related/tiny training data incl. dictionaries > 64 KiB and payloads > 1 MiB, and the bit-level encode_match(es)/decode_match(es) for every Match variant at the extremes of each field, are round-tripped on generated payloads (incompressible, permutations, RLE runs, near/far LZ distances at the coding boundaries).",
        level_note="Trusted: byte equality. compress Err is accepted and counted. Open known findings: PA-Zip reference_compliant preset has no decoder; the native SIMD-LZ77 codec is a placeholder.",
        rule="case = (target, family, index) -> (training, payload[s]); non-trivial: payload non-empty and compress Ok; distinct: structural hash.", quick_budget=150),
    "C07": diff_prop(
        technique="runtime monitoring: shadow interval map of live allocations (overlap, bounds, alignment, content retention, capacity refusal, foreign-pointer refusal) over generated alloc/free histories for every pool; AddressSanitizer and Miri on micro histories",
        level_text="54 pool targets (LockFreeMemoryPool, SecureMemoryPool incl. alignments and cache sizes, ThreadLocalMemoryPool, FixedCapacityMemoryPool, MemoryPool, PooledBuffer/PooledVec, Bump allocators, Tiered, mmap allocator, CacheAlignedVec, NUMA helpers, the five-level family in every level) run alloc/free histories with size mixes straddling every size-class boundary, exhaustion/refill, near-usize::MAX requests and foreign pointers; every returned block must be disjoint from all live blocks, inside the pool's documented capacity, aligned as requested/configured, at least as large as requested, and must keep the bytes written to it until freed; exhausted fixed-capacity pools must refuse. Micro histories run under AddressSanitizer (quick and thorough) and Miri (thorough).",
        level_note="Trusted: harness shadow map (requested size where the API exposes no usable size). Double-free tests are impossible for RAII-guarded pools. hugepage target is inconclusive when the kernel grants no huge pages.",
        rule="case = (target, family, index) -> alloc/free history; non-trivial: >= 3 successful allocations; distinct: structural hash of target+history.",
        quick_extra=[{"variant": "asan", "name": "asan", "scale": 0.3, "budget_s": 90, "leaks": 0}],
        thorough_extra=[{"variant": "asan", "name": "asan", "scale": 0.3, "budget_s": 600, "leaks": 0},
                        {"variant": "miri", "name": "miri", "shards": 16, "budget_s": 900, "timeout_s": 2400, "gens": ["micro"], "miriflags": "-Zmiri-ignore-leaks"}]),
    "C03": diff_prop(
        technique="runtime monitoring: online differential oracle (model map of live records + ever-issued id set) over generated put/remove/get histories and bulk builds for every store type, wrapper stack and config; save -> load read-back",
        level_text="65 store targets (memory, plain with reopen, zstd at all levels, lz4, Huffman trained/untrained, rANS, dictionary, the three cached write strategies, zero-length, depth-2 wrapper stacks, ZipOffset and batch builders in five configs with both save/load paths, SimpleZip, MixedLen, SortedUintVec as offset index, NestLoudsTrie store and builder in four presets incl. the keyed API, DictZip in five presets with Huffman-O1 and FSE entropy stages) run histories of put/put_batch/get/remove/contains/size/len and keyed operations over records that are empty, equal-length, highly compressible, incompressible or larger than an offset block; after every operation the result is compared with the model: get returns exactly the stored bytes, removed and never-issued ids are absent, ids are not reused for a different live record, len/contains/size agree; bulk-built stores return record i == input i and answer identically after save -> load.",
        level_note="Trusted: the model map. Operations a store documents as unsupported (read-only built stores) are accepted as refusals. Open known finding: ZipOffsetBlobStoreBuilder::finish is a placeholder.",
        rule="case = (target, family, index) -> record set + operation history; non-trivial: >= 1 non-empty record stored; distinct: structural hash.", quick_budget=150),
    "C15": diff_prop(
        level="fault_enumeration",
        technique="runtime monitoring with fault injection: every truncation and single-byte substitution of valid encodings plus small-scope and random inputs fed to each parser in forked children under address-space / CPU limits with a tracking allocator",
        level_text="86 parser targets (Huffman tree / contextual deserialisers and decoders incl. x1-x8, rANS x1-x8, FSE in 5 configs and the free functions, entropy dictionaries and dictionary compressors, every CompressorFactory product, SIMD-LZ77, PA-Zip, decode_match(es), SuffixArrayDictionary::deserialize, ZipOffset loader, ZReorderMap::open, MmapVec::open, VarInt and 7 variant decoders, ComplexSerialize collections, smart pointers, DataInput length-prefixed reads, hex, Base64) receive: all byte strings of length 0..2, a seeded sample of lengths 3..64, and for valid encodings truncation at EVERY length, substitution at EVERY position with {0x00,0xFF,b^1,b^0x80}, aligned 2/4/8-byte fields set to extreme values, appended garbage and spliced encodings. Refuting events observed from outside the forked child: panic, abort/signal, CPU-time limit, or a single allocation request larger than 64 MiB + 4096 x input length.",
        level_note="Trusted: fork + rlimit isolation, the tracking allocator's per-call peak. Returning Ok(anything) or Err is held. An allocation driven by the caller-supplied expected-length argument is not asserted (the argument is the harness's own). Open known findings: decoders that trust an in-stream original-size / match-length field need an output-limit API.",
        rule="case = (parser target, family, index) -> one valid encoding and all its mutations (hundreds of parser calls per case); non-trivial: >= 10 mutated inputs executed; distinct: structural hash of target+base encoding.", quick_budget=150),
}

for _p, _s in QUICK_SCALE.items():
    if _p in PROPS:
        PROPS[_p]["quick"][0] = dict(PROPS[_p]["quick"][0], scale=_s)
# thorough: the fixed-count differential passes finished in 0.5-3 min at scale 1 (measured on the unchanged tree); scaled so that
# each takes roughly 8-15 min on 16 cores (the per-pass budget_s still caps it: cases beyond the budget are skipped, never judged)
THOROUGH_SCALE = {"C01": 3, "C02": 4, "C04": 5, "C05": 3, "C06": 8, "C11": 12, "C12": 2, "C13": 6, "C14": 5, "C17": 3, "C19": 3, "C20": 3}
for _p, _s in THOROUGH_SCALE.items():
    if _p in PROPS:
        PROPS[_p]["thorough"][0] = dict(PROPS[_p]["thorough"][0], scale=_s)

# later additions to what each check runs (DESIGN.md 12.8-12.10): appended to the level text of the manifest
EXTRA_TEXT = {
 "C01": " Added later: huge_ families (>= 64 KiB .. 3 MiB, > 65535 occurrences of one symbol), `startup_tails` (every tail/head of length <= 6 over rare low-valued symbols + runs of 1..24, for all FSE/rANS targets), bit-field / dictionary save-load / encoder-reset / fast-division families.",
 "C02": " Added later: huge_ payloads, non-preset PaZip configurations (`pazip/custom`), reference-encoder model decoder, local matcher, suffix-array queries, dictionary serialize/save-load, alternative real-time constructors.",
 "C03": " Added later: huge_ record sets, 8 post-finalize() operations per trie-store history (a refused call must change nothing), batch/bulk/builder equivalences, wrapper inner()/into_inner() re-wrapping, shared page cache.",
 "C04": " Added later: BitVector mutation API (set/insert/pop/resize/ensure_set1/set_range_simd/bulk_bitwise_op_simd) against Vec<bool> with rank/select structures rebuilt from the mutated vector, word-level and bulk BMI2 rank/select primitives, *_optimized entry points.",
 "C05": " Added later: 256-way fan-out and long-key huge_ families, node-id lookup/restore, shrink_to_fit between mutations, stats().num_keys, double-array state walks, token API, ParallelTrieOps (merge, similarity, common prefixes).",
 "C06": " Added later: huge_ growth histories, the library's own hash functions as caller-supplied BuildHasher, EasyHashMap get_or_*/extend, GoldHashIdx batch API, HashStrMap FastStr API, hash-function contracts.",
 "C07": " Added later: non-preset thread-local arena sizes, slice views of every allocation type, capacity queries vs refusals, free-list walkers vs the live set, SecurePoolConfig builders, bump/cache-aligned vectors.",
 "C09": " Added later: push/set/resize/shrink/clear histories for UintVecMin0 and ZipIntVec (object reused after truncation), resize_with_*/risk_set_data/swap, SortedUintVec builders, IntVec clone.",
 "C10": " Added later: arena-limit end game for FixedLenStrVec (exactly 2^24 bytes), unchecked push / iter_mut / as_mut_slice, MmapVec sync+reopen continuation, BitPackedStringVec::extend, long needles through the vectorised searches.",
 "C11": " Added later: sorter reuse after a failed sort (element whose serialisation fails), partially consumed merge sources, default constructors, SIMD compare/min, loser-tree append.",
 "C12": " Added later: dictionaries after serialize/deserialize, save/load, optimize_cache, reset_stats, clone and the concurrent wrapper must answer like the brute-force model.",
 "C13": " Added later: context clear()+reuse rounds, strategy/endian shortcuts, remaining_slice/into_inner positions, mmap peek / zero-copy / seek+patch, all range/stream-buffer/zero-copy accessors, UTF-8 validation across buffer boundaries, migrations.",
 "C14": " Added later: exhaustive parse_hex_byte, unicode iterator/analysis, CPU-feature selection on synthetic feature sets, cache-config memory ops, adaptive selector cache eviction.",
 "C15": " Added later: `containers` family (FSE block containers with consistent size tables and degenerate 1..8-byte blocks), huge_trunc / huge_field.",
 "C17": " Added later: out-parameter reads into one reused CacheBuffer, CacheBuffer/BufferPool model, no-callback constructors, shard API, CachedBlobStore with shared cache and inner_mut writes.",
 "C18": " Added later: observer threads polling is_idle()/total_queued() during execution, opt-in deadlock probe (all threads blocked = violation), submit_closure, direct queue ops, FiberPool builder/handles, spawn_blocking, pipeline builder, yield primitives, fiber AIO round trips.",
 "C19": " Added later: > 4 GiB sparse files, mmap input/output API, reorder-map cursor, offset-cached reads, trie-store save/reopen, dictionary match queries after reload, create_new over a populated directory.",
}
for _p, _t in EXTRA_TEXT.items():
    if _p in PROPS: PROPS[_p]["level_text"] = PROPS[_p]["level_text"] + _t
