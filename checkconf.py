"""Per-property configuration of the orchestrator: passes per tier, evidence rule text, assumptions."""

FAST = {"variant": "fast"}

def q(budget=90, **kw):
    d = {"variant": "fast", "budget_s": budget}; d.update(kw); return d

PROPS = {
    "C04": {
        "level": "exploration",
        "technique": "runtime monitoring: differential oracle (bit-by-bit definition) over generated bit strings, all implementations and CPU tiers",
        "level_text": "Every rank/select implementation and entry point is executed on generated bit strings (boundary lengths, densities, runs) and each answer is compared online with the definition computed from the generating Vec<bool>; thorough repeats under forced AVX2/SSE4.2/scalar tiers. Held-on-what-was-observed, not a proof.",
        "level_note": "Trusted: the harness's naive prefix-sum model; BitVector::push storing the bits (cross-checked through get). Not covered: inputs no run generated; NEON.",
        "rule": "case = (implementation target, bit-string family, index); bit string generated from the case PRNG (9 families x boundary/random lengths). "
                "Oracle = definition evaluated bit by bit. Non-trivial: length >= 2. Distinct: distinct (target, structural hash of generator+content+options).",
        "assumptions": ["BitVector::push/from_raw_bits faithfully store the generated bits (cross-checked by get(i) against the generating Vec<bool>)",
                        "positions probed: all for len<=4096, else all 64/256/512/2048/65536-bit block boundaries +-1 plus 2000 random"],
        "quick": [q(90)],
        "thorough": [q(1200), {"variant": "fast", "name": "tier-avx2", "env": {"ZIPORA_VERIF_CPU_TIER": "avx2"}, "budget_s": 300, "scale": 0.25},
                     {"variant": "fast", "name": "tier-sse42", "env": {"ZIPORA_VERIF_CPU_TIER": "sse42"}, "budget_s": 300, "scale": 0.25},
                     {"variant": "fast", "name": "tier-scalar", "env": {"ZIPORA_VERIF_CPU_TIER": "scalar"}, "budget_s": 300, "scale": 0.25}],
    },
    "C16": {
        "level": "exploration",
        "technique": "runtime monitoring: controlled schedule-point scheduler (random/PCT/stall scripts) with shadow token registry + invariant at every schedule point; free-running stress; Miri and AddressSanitizer on the same histories",
        "level_text": "2-3 client threads run short acquire/release/cache histories against one VersionManager/TokenManager under a scheduler that serialises them at hook points inside the token code; a shadow registry of live tokens decides writer exclusion, min_version <= every live token, reclamation callbacks and counter agreement at every schedule point; sequential multi-manager lifetime histories run natively (count bounds), under AddressSanitizer and under Miri (use-after-free / data race reports). Interleavings are sampled (distinct schedule hashes are counted), not enumerated.",
        "level_note": "Trusted: the harness registry (register after acquire returns, deregister before drop - sound because only one participant runs between schedule points); hook sites are the only pre-emption points in controlled mode, other windows are reached only by the free-running/Miri/TSan passes. Weak-memory behaviour limited to Miri's model and x86.",
        "rule": "case = one execution: (target, generated op lists per thread, strategy, scheduler seed). Non-trivial: >= 4 schedule steps (conc) / >= 4 ops (lifetime). Distinct: distinct (target, ops, schedule-trace hash).",
        "assumptions": ["schedule points are only at verif-hooks sites and between client operations", "token versions are unique per token in the synchronised levels (used to recognise cache hits)"],
        "required_sites": [500, 501, 509, 510, 520, 530],
        "quick": [q(60), {"variant": "asan", "name": "asan", "scale": 0.25, "budget_s": 60, "leaks": 1},
                  {"variant": "miri", "name": "miri", "shards": 12, "budget_s": 200, "timeout_s": 900}],
        "thorough": [q(900), {"variant": "asan", "name": "asan", "scale": 0.3, "budget_s": 600, "leaks": 1},
                     {"variant": "tsan", "name": "tsan", "targets": ["stress/*"], "budget_s": 600, "scale": 0.5, "shards": 4},
                     {"variant": "miri", "name": "miri", "shards": 16, "budget_s": 900, "timeout_s": 3000, "scale": 8, "args": []}],
    },
    "C08": {
        "level": "exploration",
        "technique": "runtime monitoring: controlled schedule-point scheduler inside the pools' pop/push paths + ownership/content shadow monitors + quiescent free-structure walk (hook H2); AddressSanitizer and Miri on the same executions",
        "level_text": "2-3 client threads run short alloc/free lists against a fresh pool (SecureMemoryPool, LockFreeMemoryPool, five-level LockFreePool and MutexBasedPool, FixedCapacityMemoryPool; global size-class pools free-running) under a scheduler that interleaves them at hook points between head load, next read and compare-exchange; an ownership map flags any block handed out while another owner still holds an overlapping range, contents are stamped and re-read, and after join the free structures are walked (no cycle, no duplicate, nothing lost, counters add up). The same executions run under AddressSanitizer and Miri so that a read of a freed node is a report. Interleavings are sampled, not enumerated.",
        "level_note": "Trusted: harness ownership map (register after allocate returns / remove before free: sound under any schedule); H2 walkers are read-only and used only after all clients joined. TSan / Miri data-race detection are NOT used for the tagged free lists: a stale read of the next link that is discarded by the failing compare-exchange is by design there and outside the property.",
        "rule": "case = one execution: (pool kind, config, per-thread op lists, strategy, scheduler seed). Non-trivial: >= 3 successful allocations. Distinct: distinct (pool, ops, schedule-trace hash).",
        "assumptions": ["pre-emption only at verif-hooks sites and between client operations in controlled mode"],
        "required_sites": [100, 101, 102, 200, 201, 211, 301, 311, 401, 411],
        "quick": [q(60), {"variant": "asan", "name": "asan", "scale": 0.25, "budget_s": 60, "leaks": 0},
                  {"variant": "miri", "name": "miri", "shards": 12, "budget_s": 240, "timeout_s": 900, "miriflags": "-Zmiri-ignore-leaks -Zmiri-disable-data-race-detector"}],
        "thorough": [q(900), {"variant": "asan", "name": "asan", "scale": 0.3, "budget_s": 600, "leaks": 0},
                     {"variant": "miri", "name": "miri", "shards": 16, "budget_s": 900, "timeout_s": 3000, "scale": 6, "miriflags": "-Zmiri-ignore-leaks -Zmiri-disable-data-race-detector"}],
    },
}
